"""Replacements for Python builtins, installed as module globals of the analysed repo modules.

They behave exactly like the builtin on ordinary values and keep symbolic values symbolic
(`len` of a lazy object is a SymInt instead of forcing concretisation, `int()` of a SymInt is
the SymInt, `isinstance(SymInt, int)` is True ...).
"""
import builtins as _b
from .core import SymInt, SymBool, is_sym, mk, eng, Unsupported
import z3


def sym_len(x):
    if hasattr(x, 'sym_len'):
        return x.sym_len()
    return _b.len(x)


def sym_int(x=0, *a):
    if isinstance(x, SymInt):
        return SymInt(x.t, False) if x.isfloat else x
    if hasattr(x, 'sym_scalar'):
        return sym_int(x.sym_scalar())
    if hasattr(x, 'sym_int'):
        return x.sym_int()
    if _b.type(x).__name__ == 'SymFloat':
        return x.trunc_int()
    return _b.int(x, *a)


class TaggedSymInt(SymInt):
    """A symbolic instance of an int subclass (e.g. utils.FileOffset): arithmetic yields plain SymInts."""
    __slots__ = ('cls',)

    def __init__(self, t, cls):
        SymInt.__init__(self, t, False)
        self.cls = cls


def _int_new(cls, value=0):
    if isinstance(value, SymInt):
        return TaggedSymInt(value.t, cls)
    return _b.int.__new__(cls, value)


sym_int.__new__ = _int_new
try:        # numpy accepts any object with a .dtype attribute as a dtype: arr.astype(int) keeps working under the shadow
    import numpy as _np
    sym_int.dtype = _np.dtype('int64')
except Exception:
    pass


def sym_float(x=0.0):
    if isinstance(x, SymInt):
        return SymInt(x.t, True)
    return _b.float(x)


UNSHADOW = {}   # shadowing function -> the builtin type it stands for (filled below and by the shims)


def _unshadow(cls):
    if _b.isinstance(cls, tuple):
        return tuple(_unshadow(c) for c in cls)
    try:
        return UNSHADOW.get(cls, cls)
    except TypeError:
        return cls


def sym_isinstance(x, cls):
    cls = _unshadow(cls)
    if isinstance(x, SymInt):
        classes = cls if _b.isinstance(cls, tuple) else (cls,)
        if isinstance(x, TaggedSymInt) and any(_b.isinstance(c, type) and issubclass(x.cls, c) for c in classes):
            return True
        for c in classes:
            if c is int and not x.isfloat:
                return True
            if c is float and x.isfloat:
                return True
            if c is SymInt:
                return True
        return False
    if hasattr(x, 'sym_isinstance'):
        r = x.sym_isinstance(cls)
        if r is not None:
            return r
    return _b.isinstance(x, cls)


def sym_min(*a, **k):
    if _b.len(a) == 1:
        a = list(a[0])
    if not any(is_sym(v) for v in a):
        return _b.min(a, **k)
    m = a[0]
    for v in a[1:]:
        if v < m:
            m = v
    return m


def sym_max(*a, **k):
    if _b.len(a) == 1:
        a = list(a[0])
    if not any(is_sym(v) for v in a):
        return _b.max(a, **k)
    m = a[0]
    for v in a[1:]:
        if v > m:
            m = v
    return m


def sym_sum(it, start=0):
    acc = start
    for v in it:
        if isinstance(v, SymBool):
            v = mk(z3.If(v.t, z3.IntVal(1), z3.IntVal(0)))
        acc = acc + v
    return acc


def sym_abs(x):
    return abs(x)


def sym_print(*a, **k):
    return None


def sym_all(it):
    for v in it:
        if not v:
            return False
    return True


def sym_any(it):
    for v in it:
        if v:
            return True
    return False


def sym_range(*a):
    """range() accepting symbolic bounds: bounds are concretised by forking (increasing order)."""
    return _b.range(*[_b.int(v) if is_sym(v) else v for v in a])


UNSHADOW.update({sym_int: int, sym_float: float})
try:
    sym_float.dtype = _np.dtype('float64')
except Exception:
    pass

COMMON = dict(len=sym_len, int=sym_int, float=sym_float, isinstance=sym_isinstance, min=sym_min, max=sym_max,
              sum=sym_sum, print=sym_print, all=sym_all, any=sym_any, range=sym_range)
