"""SymFloat: IEEE-754 binary64 values as z3 floating-point terms (round-to-nearest-even for + - * /), used only where
a property is about float rounding (C05 sample axis).  int(x) / astype(int) truncate toward zero (fp.to_sbv RTZ)."""
import z3
from .core import SymInt, SymBool, mkbool, Unsupported, eng, is_sym

F64 = z3.Float64()
RNE = z3.RNE()


def to_fp(x):
    """-> z3 FP term of a Python / numpy number, SymInt or SymFloat."""
    if isinstance(x, SymFloat):
        return x.t
    if isinstance(x, SymInt):
        return z3.fpRealToFP(RNE, z3.ToReal(x.t), F64)
    if isinstance(x, bool):
        raise Unsupported("bool in float arithmetic")
    if isinstance(x, int):
        return z3.FPVal(float(x), F64) if abs(x) < 2 ** 53 else z3.fpRealToFP(RNE, z3.RealVal(x), F64)
    if isinstance(x, float):
        return z3.FPVal(x, F64)
    try:
        import numpy as np
        if isinstance(x, np.integer):
            return to_fp(int(x))
        if isinstance(x, np.floating):
            return z3.FPVal(float(x), F64)
    except ImportError:
        pass
    return None


class SymFloat:
    __slots__ = ('t',)
    isfloat = True

    def __init__(self, t):
        self.t = t

    def _bin(self, o, f, swap=False):
        b = to_fp(o)
        if b is None:
            return NotImplemented
        a = self.t
        if swap:
            a, b = b, a
        return SymFloat(f(a, b))

    def __add__(self, o):
        return self._bin(o, lambda a, b: z3.fpAdd(RNE, a, b))

    def __radd__(self, o):
        return self._bin(o, lambda a, b: z3.fpAdd(RNE, a, b), True)

    def __sub__(self, o):
        return self._bin(o, lambda a, b: z3.fpSub(RNE, a, b))

    def __rsub__(self, o):
        return self._bin(o, lambda a, b: z3.fpSub(RNE, a, b), True)

    def __mul__(self, o):
        return self._bin(o, lambda a, b: z3.fpMul(RNE, a, b))

    def __rmul__(self, o):
        return self._bin(o, lambda a, b: z3.fpMul(RNE, a, b), True)

    def __truediv__(self, o):
        return self._bin(o, lambda a, b: z3.fpDiv(RNE, a, b))

    def __rtruediv__(self, o):
        return self._bin(o, lambda a, b: z3.fpDiv(RNE, a, b), True)

    def __neg__(self):
        return SymFloat(z3.fpNeg(self.t))

    def __abs__(self):
        return SymFloat(z3.fpAbs(self.t))

    def _cmp(self, o, f):
        b = to_fp(o)
        if b is None:
            return NotImplemented
        return mkbool(f(self.t, b))

    def __lt__(self, o):
        return self._cmp(o, z3.fpLT)

    def __le__(self, o):
        return self._cmp(o, z3.fpLEQ)

    def __gt__(self, o):
        return self._cmp(o, z3.fpGT)

    def __ge__(self, o):
        return self._cmp(o, z3.fpGEQ)

    def __eq__(self, o):
        r = self._cmp(o, z3.fpEQ)
        return False if r is NotImplemented else r

    def __ne__(self, o):
        r = self._cmp(o, z3.fpNEQ)
        return True if r is NotImplemented else r

    __hash__ = None

    def trunc_int(self):
        """int(x): truncation toward zero (NaN / out of int64 range: unspecified value, as in C)."""
        bv = z3.fpToSBV(z3.RTZ(), self.t, z3.BitVecSort(64))
        return SymInt(z3.BV2Int(bv, True))

    def ceil_int(self):
        bv = z3.fpToSBV(z3.RTP(), self.t, z3.BitVecSort(64))
        return SymInt(z3.BV2Int(bv, True))

    def astype(self, t):
        name = getattr(t, '__name__', str(t))
        if t is int or 'int' in name:
            return self.trunc_int()
        return self

    def sym_int(self):
        return self.trunc_int()

    def __float__(self):
        raise Unsupported("concrete value of a symbolic float")

    def __int__(self):
        raise Unsupported("concrete value of a symbolic float")

    def __bool__(self):
        return bool(mkbool(z3.Not(z3.fpIsZero(self.t))))

    def __repr__(self):
        return "SymFloat(%s)" % str(self.t)[:60]

    def __format__(self, spec):
        return '<float>'

    __str__ = __repr__
