"""SymFloat: IEEE-754 binary64 values as z3 floating-point terms (round-to-nearest-even for + - * /), used only where
a property is about float rounding (C05 sample axis).  int(x) / astype(int) truncate toward zero (fp.to_sbv RTZ).
The terms live in the float world of symx.fpworld (leaves: 64-bit bit-vector twins of the integer inputs); results that
re-enter integer code become defined constants of the integer world."""
import z3
from .core import SymInt, SymBool, mkbool, Unsupported, eng, is_sym
from . import fpworld

F64 = z3.Float64()
RNE = z3.RNE()


def to_fp(x):
    """-> z3 FP term of a Python / numpy number, SymInt or SymFloat."""
    if isinstance(x, SymFloat):
        return x.t
    if isinstance(x, SymInt):
        try:
            return z3.fpSignedToFP(RNE, fpworld.to_bv(x.t), F64)
        except fpworld.NotTranslatable as e:
            raise Unsupported("integer term in float arithmetic: %s" % e)
    if isinstance(x, bool):
        raise Unsupported("bool in float arithmetic")
    if isinstance(x, int):
        return z3.FPVal(float(x), F64) if abs(x) < 2 ** 53 else z3.fpRealToFP(RNE, z3.RealVal(x), F64)
    if isinstance(x, float):
        return z3.FPVal(x, F64)
    try:
        import numpy as np
        if isinstance(x, np.integer):
            return to_fp(int(x))
        if isinstance(x, np.floating):
            return z3.FPVal(float(x), F64)
    except ImportError:
        pass
    return None


F32 = z3.Float32()


def _weak(o):
    """Operands numpy treats as weakly typed next to a float32 scalar (NEP 50): Python ints and floats."""
    return isinstance(o, (int, float)) and not isinstance(o, bool)


class SymFloat:
    """f32: the value is a numpy float32 (held, exactly, in a Float64 term); arithmetic with another float32 or with a
    Python scalar is then carried out in binary32, as numpy 2 does."""
    __slots__ = ('t', 'f32')
    isfloat = True

    def __init__(self, t, f32=False):
        self.t = t
        self.f32 = f32

    def to_f32(self):
        return SymFloat(z3.fpFPToFP(RNE, z3.fpFPToFP(RNE, self.t, F32), F64), True)

    def _bin(self, o, f, swap=False):
        b = to_fp(o)
        if b is None:
            return NotImplemented
        a = self.t
        single = self.f32 and (_weak(o) or (isinstance(o, SymFloat) and o.f32))
        if single:
            a, b = z3.fpFPToFP(RNE, a, F32), z3.fpFPToFP(RNE, b, F32)
        if swap:
            a, b = b, a
        r = f(a, b)
        if single:
            return SymFloat(z3.fpFPToFP(RNE, r, F64), True)
        return SymFloat(r)

    def __add__(self, o):
        return self._bin(o, lambda a, b: z3.fpAdd(RNE, a, b))

    def __radd__(self, o):
        return self._bin(o, lambda a, b: z3.fpAdd(RNE, a, b), True)

    def __sub__(self, o):
        return self._bin(o, lambda a, b: z3.fpSub(RNE, a, b))

    def __rsub__(self, o):
        return self._bin(o, lambda a, b: z3.fpSub(RNE, a, b), True)

    def __mul__(self, o):
        return self._bin(o, lambda a, b: z3.fpMul(RNE, a, b))

    def __rmul__(self, o):
        return self._bin(o, lambda a, b: z3.fpMul(RNE, a, b), True)

    def __truediv__(self, o):
        return self._bin(o, lambda a, b: z3.fpDiv(RNE, a, b))

    def __rtruediv__(self, o):
        return self._bin(o, lambda a, b: z3.fpDiv(RNE, a, b), True)

    def __neg__(self):
        return SymFloat(z3.fpNeg(self.t), self.f32)

    def __abs__(self):
        return SymFloat(z3.fpAbs(self.t), self.f32)

    def _cmp(self, o, f):
        b = to_fp(o)
        if b is None:
            return NotImplemented
        r = z3.simplify(f(self.t, b))
        if z3.is_true(r) or z3.is_false(r):
            return z3.is_true(r)
        return mkbool(fpworld.define_bool(r))

    def __lt__(self, o):
        return self._cmp(o, z3.fpLT)

    def __le__(self, o):
        return self._cmp(o, z3.fpLEQ)

    def __gt__(self, o):
        return self._cmp(o, z3.fpGT)

    def __ge__(self, o):
        return self._cmp(o, z3.fpGEQ)

    def __eq__(self, o):
        r = self._cmp(o, z3.fpEQ)
        return False if r is NotImplemented else r

    def __ne__(self, o):
        r = self._cmp(o, z3.fpNEQ)
        return True if r is NotImplemented else r

    __hash__ = None

    def trunc_int(self):
        """int(x): truncation toward zero (NaN / out of int64 range: unspecified value, as in C)."""
        return self._to_int(z3.RTZ())

    def ceil_int(self):
        return self._to_int(z3.RTP())

    def _to_int(self, mode):
        bv = z3.simplify(z3.fpToSBV(mode, self.t, z3.BitVecSort(64)))
        if z3.is_bv_value(bv):
            return bv.as_signed_long()
        return SymInt(fpworld.define_int(bv))

    def rint(self):
        """numpy.rint / numpy.round(x) with no decimals: round half to even, still a float."""
        return SymFloat(z3.fpRoundToIntegral(RNE, self.t), self.f32)

    def round(self, decimals=0, out=None):
        if decimals != 0:
            raise Unsupported("round(decimals != 0) of a symbolic float")
        return self.rint()

    def __round__(self, nd=None):
        if nd not in (None, 0):
            raise Unsupported("round(x, n) of a symbolic float")
        return SymFloat(z3.fpRoundToIntegral(RNE, self.t))._to_int(z3.RTZ()) if nd is None else self.rint()

    def __trunc__(self):
        return self.trunc_int()

    def __floor__(self):
        return self._to_int(z3.RTN())

    def __ceil__(self):
        return self._to_int(z3.RTP())

    def item(self):
        return self

    def astype(self, t):
        name = getattr(t, '__name__', str(t))
        if t is int or 'int' in name:
            return self.trunc_int()
        if 'float32' in name or name in ('f4', '<f4'):
            return self.to_f32()
        if self.f32:
            return SymFloat(self.t)
        return self

    def sym_int(self):
        return self.trunc_int()

    def __float__(self):
        raise Unsupported("concrete value of a symbolic float")

    def __int__(self):
        raise Unsupported("concrete value of a symbolic float")

    def __bool__(self):
        return bool(mkbool(fpworld.define_bool(z3.Not(z3.fpIsZero(self.t)))))

    def __repr__(self):
        return "SymFloat(%s)" % str(self.t)[:60]

    def __format__(self, spec):
        return '<float>'

    __str__ = __repr__


def fp_ite(cond, a, b):
    """cond: SymBool / bool of the integer world; a, b: floats."""
    if isinstance(cond, bool):
        return a if cond else b
    from .core import tobool
    try:
        c = fpworld.to_bv(tobool(cond))
    except fpworld.NotTranslatable as e:
        raise Unsupported("condition of a float selection: %s" % e)
    return SymFloat(z3.If(c, to_fp(a), to_fp(b)))
