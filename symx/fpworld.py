"""Binary64 side of the engine (used only by the C05 float items).

The engine's path condition lives in linear integer arithmetic; IEEE-754 terms mixed into that solver stall it.  So
floats live in a second, pure QF_BVFP world:

* a SymFloat holds a z3 FloatingPoint term whose leaves are 64-bit bit-vector variables (one per integer input, same
  name) converted with fp.to_fp (signed);
* when a float result re-enters integer code (int(x), astype(int), len(arange(...)), a comparison used as a condition) it
  becomes a FRESH Int / Bool constant of the integer world whose definition (a BV / Bool term of the float world) is
  recorded in DEFS.  The integer solver sees it unconstrained (an over-approximation used only to steer paths);
* every obligation (and nothing else) whose cone of influence contains a defined constant is decided in the float world:
  the path-condition conjuncts in the cone are translated Int -> BV64 (to_bv), the definitions substituted, and
  PC /\\ not(obligation) is given to z3 (QF_BVFP, in-process) and, for the unsat direction, to the cvc5 binary on the dumped
  SMT-LIB2 text.  `unsat` discharges the obligation for every input within the bounds of the item, `sat` gives
  concrete inputs that are replayed on the real code, anything else is reported undecided.

Integer terms are translated to 64-bit two's complement; all integer inputs of these items are bounded by 2^17 (and the
engine asserts those bounds in the path condition, which is part of every query), so no translated sum or product
wraps.  div / mod are supported for positive constant divisors only.
"""
import os
import subprocess
import tempfile
import time

import z3

W = 64
F64 = z3.Float64()
RNE = z3.RNE()

DEFS = {}            # name of an Int/Bool constant of the integer world -> defining term of the float world
COUNTER = [0]
STATS = dict(queries=0, unsat=0, sat=0, unknown=0, solver_s=0.0, cvc5_decided=0, z3_decided=0)
CFG = dict(z3_ms=20000, cvc5_s=240, use_cvc5=True)


class NotTranslatable(Exception):
    pass


def reset():
    DEFS.clear()
    COUNTER[0] = 0
    _TR.clear()
    del LEARNED[:]


def active():
    return bool(DEFS)


def define_int(bv):
    """Fresh integer-world constant standing for the (64-bit signed) float-world term bv."""
    COUNTER[0] += 1
    name = 'fp!%d' % COUNTER[0]
    DEFS[name] = bv
    return z3.Int(name)


def define_bool(b):
    COUNTER[0] += 1
    name = 'fpb!%d' % COUNTER[0]
    DEFS[name] = b
    return z3.Bool(name)


_TR = {}


def learn_equality(c):
    """An obligation `defined constant == integer term` has just been proved for every value on this path: from here on
    (this path only - definitions are rebuilt on every re-execution) the constant is defined by the simpler term, so
    later float queries do not drag the proved float circuit along."""
    if c.decl().kind() != z3.Z3_OP_EQ:
        return
    a, b = c.children()
    for x, y in ((a, b), (b, a)):
        if not x.children() and x.decl().kind() == z3.Z3_OP_UNINTERPRETED and x.decl().name() in DEFS and z3.is_int(x):
            if x.decl().name() in consts_of(y):
                continue
            try:
                new = to_bv(y)
            except NotTranslatable:
                return
            DEFS[x.decl().name()] = new
            LEARNED.append(x.decl().name())
            _TR.clear()
            return


LEARNED = []


def to_bv(t):
    """Translate an integer-world z3 term (Int or Bool sort) into the float world (BV64 / Bool)."""
    k = t.get_id()
    e = _TR.get(k)
    if e is not None and e[0].eq(t):
        return e[1]
    r = _to_bv(t)
    _TR[k] = (t, r)
    return r


def _floor_divmod(a, c):
    q, r = a / c, z3.SRem(a, c)          # bvsdiv / bvsrem truncate toward zero
    neg = r < 0
    return z3.If(neg, q - 1, q), z3.If(neg, r + c, r)


def _to_bv(t):
    if z3.is_int_value(t):
        return z3.BitVecVal(t.as_long(), W)
    if z3.is_true(t) or z3.is_false(t):
        return t
    d = t.decl()
    kind = d.kind()
    ch = t.children()
    if kind == z3.Z3_OP_UNINTERPRETED and not ch:
        name = d.name()
        if name in DEFS:
            return DEFS[name]
        if z3.is_int(t):
            return z3.BitVec(name, W)
        if z3.is_bool(t):
            return z3.Bool(name)
        raise NotTranslatable("constant of sort %s" % t.sort())
    if kind == z3.Z3_OP_ITE:
        return z3.If(to_bv(ch[0]), to_bv(ch[1]), to_bv(ch[2]))
    if kind in (z3.Z3_OP_AND, z3.Z3_OP_OR, z3.Z3_OP_NOT, z3.Z3_OP_IMPLIES, z3.Z3_OP_XOR):
        a = [to_bv(c) for c in ch]
        return {z3.Z3_OP_AND: lambda: z3.And(*a), z3.Z3_OP_OR: lambda: z3.Or(*a), z3.Z3_OP_NOT: lambda: z3.Not(a[0]),
                z3.Z3_OP_IMPLIES: lambda: z3.Implies(a[0], a[1]), z3.Z3_OP_XOR: lambda: z3.Xor(a[0], a[1])}[kind]()
    if kind in (z3.Z3_OP_EQ, z3.Z3_OP_IFF):
        return to_bv(ch[0]) == to_bv(ch[1])
    if kind == z3.Z3_OP_DISTINCT:
        return z3.Distinct(*[to_bv(c) for c in ch])
    if kind in (z3.Z3_OP_LE, z3.Z3_OP_LT, z3.Z3_OP_GE, z3.Z3_OP_GT):
        a, b = to_bv(ch[0]), to_bv(ch[1])
        return {z3.Z3_OP_LE: a <= b, z3.Z3_OP_LT: a < b, z3.Z3_OP_GE: a >= b, z3.Z3_OP_GT: a > b}[kind]
    if kind == z3.Z3_OP_ADD:
        r = to_bv(ch[0])
        for c in ch[1:]:
            r = r + to_bv(c)
        return r
    if kind == z3.Z3_OP_SUB:
        r = to_bv(ch[0])
        for c in ch[1:]:
            r = r - to_bv(c)
        return r
    if kind == z3.Z3_OP_MUL:
        r = to_bv(ch[0])
        for c in ch[1:]:
            r = r * to_bv(c)
        return r
    if kind == z3.Z3_OP_UMINUS:
        return -to_bv(ch[0])
    if kind in (z3.Z3_OP_IDIV, z3.Z3_OP_MOD):
        a = to_bv(ch[0])
        if z3.is_int_value(ch[1]):
            dv = ch[1].as_long()
            if dv == 0:
                return z3.BitVecVal(0, W)      # unspecified in the integer world; only ever met under an infeasible guard
            q, r = _floor_divmod(a, z3.BitVecVal(abs(dv), W))
            return (q if dv > 0 else -q) if kind == z3.Z3_OP_IDIV else r
        # symbolic divisor: a = d*q + r with 0 <= r < |d| (SMT-LIB Int semantics)
        dd = to_bv(ch[1])
        ad = z3.If(dd < 0, -dd, dd)
        q, r = _floor_divmod(a, ad)
        return z3.If(dd < 0, -q, q) if kind == z3.Z3_OP_IDIV else r
    raise NotTranslatable("operator %s" % d.name())


def consts_of(t, acc=None, seen=None):
    """Names of the uninterpreted constants of an integer-world term."""
    acc = set() if acc is None else acc
    seen = set() if seen is None else seen
    stack = [t]
    while stack:
        x = stack.pop()
        k = x.get_id()
        if k in seen:
            continue
        seen.add(k)
        ch = x.children()
        if not ch and x.decl().kind() == z3.Z3_OP_UNINTERPRETED:
            acc.add(x.decl().name())
        stack.extend(ch)
    return acc


def bv_consts_of(t):
    """Names of the BV/Bool variables of a float-world term (to follow definitions into their inputs)."""
    return consts_of(t)


def mentions_def(t):
    return any(n in DEFS for n in consts_of(t))


def cone(assertions, cond):
    """Conjuncts of the path condition connected (through shared constants, following definitions) to cond."""
    def closure(names):
        out = set()
        todo = list(names)
        while todo:
            n = todo.pop()
            if n in out:
                continue
            out.add(n)
            if n in DEFS:
                todo.extend(bv_consts_of(DEFS[n]))
        return out
    seed = consts_of(cond)
    if not seed:
        # the question is the feasibility of the path itself (obligation `False`): everything tied to a float result counts
        seed = set(DEFS)
    want = closure(seed)
    items = [(a, closure(consts_of(a))) for a in assertions]
    used = [False] * len(items)
    changed = True
    while changed:
        changed = False
        for i, (a, names) in enumerate(items):
            if not used[i] and names & want:
                used[i] = True
                if not names <= want:
                    want |= names
                changed = True
    return [a for (a, _), u in zip(items, used) if u], want


def decide(assertions, negcond, want_model=True):
    """Decide PC /\\ negcond in the float world. -> (verdict, model dict name -> int/bool or None, note)."""
    STATS['queries'] += 1
    t0 = time.time()
    try:
        pcs, names = cone(assertions, negcond)
        q = [to_bv(a) for a in pcs] + [to_bv(negcond)]
    except NotTranslatable as e:
        STATS['unknown'] += 1
        return 'unknown', None, 'not translatable to QF_BVFP: %s' % e
    s = z3.Solver()
    s.set('timeout', CFG['z3_ms'])
    s.add(*q)
    if os.environ.get('VERIF_FP_DUMP'):
        with open(os.path.join(os.environ['VERIF_FP_DUMP'], 'q%d.smt2' % STATS['queries']), 'w') as f:
            f.write('(set-logic QF_BVFP)\n' + s.to_smt2())
    text = '(set-logic QF_BVFP)\n' + s.to_smt2()      # taken before check(): z3 adds internal declarations afterwards
    r = str(s.check())
    note = 'z3'
    cvals = None
    if r == 'unknown' and CFG['use_cvc5']:
        names = sorted(n for n in names if n not in DEFS)
        r2, cvals = _cvc5(text, [n for n in names if _is_var(q, n)])
        if r2 == 'unsat':
            r, note = 'unsat', 'cvc5'
        elif r2 == 'sat' and cvals is not None:
            # confirm cvc5's witness with z3 (a model evaluation, no search)
            s2 = z3.Solver()
            s2.set('timeout', CFG['z3_ms'])
            s2.add(*q)
            for n, v in cvals.items():
                s2.add((z3.Bool(n) == v) if isinstance(v, bool) else (z3.BitVec(n, W) == v))
            if str(s2.check()) == 'sat':
                s, r, note = s2, 'sat', 'cvc5 witness confirmed by z3'
            else:
                note = 'cvc5 sat, witness not confirmed'
    STATS['solver_s'] += time.time() - t0
    if os.environ.get('VERIF_FP_TRACE'):
        import sys as _s
        _s.stderr.write('fp query %d: %s (%s) %.1fs cvc5=%s z3_ms=%s\n' % (STATS['queries'], r, note, time.time() - t0, CFG['use_cvc5'], CFG['z3_ms']))
    if r == 'unsat':
        STATS['unsat'] += 1
        STATS['cvc5_decided' if note == 'cvc5' else 'z3_decided'] += 1
        return 'unsat', None, note
    if r == 'sat':
        STATS['sat'] += 1
        STATS['z3_decided'] += 1
        m = s.model()
        vals = {}
        for d in m.decls():
            if d.arity() == 0:
                v = m[d]
                if z3.is_bv_value(v):
                    vals[d.name()] = v.as_signed_long()
                elif z3.is_true(v) or z3.is_false(v):
                    vals[d.name()] = z3.is_true(v)
        # values of the defined constants under this model (for reporting)
        for n, t in DEFS.items():
            try:
                v = m.eval(t, model_completion=True)
                if z3.is_bv_value(v):
                    vals[n] = v.as_signed_long()
                elif z3.is_true(v) or z3.is_false(v):
                    vals[n] = z3.is_true(v)
            except Exception:
                pass
        return 'sat', vals, note
    STATS['unknown'] += 1
    return 'unknown', None, note


def _is_var(q, name):
    return True


def _cvc5(text, names=()):
    exe = None
    for p in os.environ.get('PATH', '').split(os.pathsep):
        c = os.path.join(p, 'cvc5')
        if os.access(c, os.X_OK):
            exe = c
            break
    if exe is None:
        return 'unknown', None
    decl = {}
    import re
    for m in re.finditer(r'\(declare-fun (\S+) \(\) (\(_ BitVec 64\)|Bool)\)', text):
        decl[m.group(1).strip('|')] = (m.group(1), m.group(2))
    ask = [decl[n][0] for n in names if n in decl]
    if ask:
        text = text + '\n(get-value (%s))\n' % ' '.join(ask)
    fd, path = tempfile.mkstemp(prefix='verif-fp-', suffix='.smt2')
    try:
        with os.fdopen(fd, 'w') as f:
            f.write(text)
        try:
            p = subprocess.run([exe, '--produce-models', path], capture_output=True, text=True, timeout=CFG['cvc5_s'])
        except subprocess.TimeoutExpired:
            return 'unknown', None
        out = p.stdout.strip().splitlines()
        if os.environ.get('VERIF_FP_TRACE'):
            import sys as _s
            _s.stderr.write('cvc5 rc=%s out=%r err=%r\n' % (p.returncode, p.stdout[:300], p.stderr[:300]))
        if not out or out[0] not in ('sat', 'unsat'):
            return 'unknown', None
        if out[0] == 'unsat':
            # an (error ...) after unsat can only come from get-value, which is not answered without a model
            return 'unsat', None
        vals = {}
        rest = ' '.join(out[1:])
        if '(error' in rest:
            return 'sat', None
        for m in re.finditer(r'\((\|[^|]+\||[^\s()]+) (#b[01]+|#x[0-9a-fA-F]+|\(_ bv(\d+) \d+\)|true|false)\)', rest):
            n, v = m.group(1).strip('|'), m.group(2)
            if v in ('true', 'false'):
                vals[n] = v == 'true'
            else:
                u = int(v[2:], 2) if v.startswith('#b') else int(v[2:], 16) if v.startswith('#x') else int(m.group(3))
                vals[n] = u - (1 << W) if u >= (1 << (W - 1)) else u
        return 'sat', (vals or None)
    finally:
        try:
            os.unlink(path)
        except OSError:
            pass
