"""symx core: operator-overloading symbolic executor for the real Python code of /repo.

* SymInt wraps a z3 Int term; arithmetic has Python semantics (floor division / modulo).
* SymBool.__bool__ is the fork point; the engine re-executes the harness once per feasible
  decision vector (DFS, deterministic), every decision backed by a z3 query.
* check(cond) asks z3 for  pc AND NOT cond : unsat = discharged, sat = candidate counterexample
  (model of the named inputs), unknown = not decided (never success).
* In *concrete mode* (Engine(concrete={...})) fresh() returns plain ints, nothing is symbolic and
  the same harness code runs at Python speed: used to re-run solver models and for translator validation.
"""
import time
import z3


class PathAbort(BaseException):
    """Engine control flow; BaseException so that `except Exception` in analysed code cannot swallow it."""


class Infeasible(PathAbort):
    pass


class Unsupported(PathAbort):
    """A stub met an operation outside its contract: the work item is 'not encoded' (never a verdict)."""


class Budget(PathAbort):
    pass


class Nondeterminism(BaseException):
    """The harness took different decisions when re-executed on the same prefix (engine/harness bug)."""


DEBUG_DET = None
ENG = None  # current engine (one per process)


def eng():
    return ENG


class Candidate:
    def __init__(self, msg, model, info):
        self.msg, self.model, self.info = msg, model, info

    def as_dict(self):
        return {"msg": self.msg, "model": self.model, "info": self.info}


class Engine:
    def __init__(self, timeout_ms=10000, concrete=None, max_paths=200000, deadline=None, max_candidates=25):
        self.concrete = concrete
        self.timeout_ms = timeout_ms
        self.s = z3.Solver()
        self.s.set('timeout', timeout_ms)
        self.max_paths = max_paths
        self.deadline = deadline
        self.max_candidates = max_candidates
        self.inputs = {}           # name -> z3 Int (persist across paths)
        self.input_order = []
        # statistics
        self.paths = 0
        self.aborted_paths = 0
        self.queries = 0
        self.solver_s = 0.0
        self.unknown = 0
        self.nonlinear = 0
        self.obligations = 0
        self.discharged = 0
        self.candidates = []
        self.undecided = []
        self.not_encoded = []
        self.budget_hit = False
        self.samples = []
        self.reach = {}            # label -> times reached on a feasible path (vacuity guard)
        # per path
        self.forced = []
        self.trace = []
        self.new_alts = []
        self.model = None
        self.fixed_cache = {}
        self.path_notes = []
        self.watches = []          # per path: callables(model) -> dict of extra named values for counterexamples
        # memo of solver answers keyed by (decision-trace key, sequence number since last decision): the
        # harness is deterministic, so the k-th query after decision prefix T is the same query in every
        # re-execution (the term id is stored and compared as a guard).
        self.memo = {}
        self.tkey = 0
        self.seq = 0
        self.memo_hits = 0

    def _memo_get(self, tid):
        self.seq += 1
        k = (self.tkey, len(self.trace), self.seq)
        e = self.memo.get(k)
        if e is not None and e[0] == tid:
            self.memo_hits += 1
            return k, e
        return k, None

    def _decided(self, d):
        if DEBUG_DET is not None:
            import traceback as _tb
            key = (self.tkey, len(self.trace))
            st = ' < '.join('%s:%d' % (f.name, f.lineno) for f in reversed(_tb.extract_stack(limit=14)[:-2])
                            if ('/repo/' in f.filename or '/shims/' in f.filename or 'readers' in f.filename))
            if key in DEBUG_DET and DEBUG_DET[key] != st:
                import sys as _s
                _s.stderr.write("NONDET at decision %d:\n  first: %s\n  now:   %s\n" % (len(self.trace), DEBUG_DET[key], st))
            DEBUG_DET.setdefault(key, st)
        self.trace.append(d)
        self.tkey = hash((self.tkey, d))
        self.seq = 0

    # ------------------------------------------------------------------ solver plumbing
    def _q(self, *assumps):
        t = time.time()
        r = self.s.check(*assumps)
        self.solver_s += time.time() - t
        self.queries += 1
        return r

    def _add(self, c):
        """Segment constraint (assumption / input bound): skipped while replaying segments still on the solver."""
        if len(self.trace) <= self.kcommon:
            return
        self.s.add(c)

    def _add_dec(self, c, d):
        """Decision constraint at position len(trace): opens a solver scope unless it is still asserted."""
        pos = len(self.trace)
        if pos >= self.kcommon:
            self.s.push()
            self.s.add(c)
            self.scope_trace.append(d)
        self._decided(d)

    def _ensure_model(self):
        if self.model is None:
            r = self._q()
            if r == z3.unsat:
                raise Infeasible()
            if r == z3.unknown:
                self.unknown += 1
                raise Infeasible()
            self.model = self.s.model()
        return self.model

    # ------------------------------------------------------------------ exploration
    def explore(self, fn):
        """Run fn() once per feasible path. fn creates its inputs with fresh()."""
        global ENG
        ENG = self
        if self.concrete is not None:
            self.trace = []
            try:
                fn()
                self.paths += 1
            except Infeasible:
                self.aborted_paths += 1
            except Unsupported as e:
                self.not_encoded.append(str(e))
            return self
        stack = [[]]
        self.s.push()
        self.scope_trace = []      # decisions whose scopes are currently on the solver stack
        self.kcommon = -1          # constraints up to and including segment kcommon are already asserted
        while stack:
            if self.paths + self.aborted_paths >= self.max_paths or (self.deadline and time.time() > self.deadline):
                self.budget_hit = True
                break
            prefix = stack.pop()
            self.forced = prefix
            # keep the solver scopes of the decisions shared with the previous path (warm incremental state)
            if self.kcommon >= 0 or self.scope_trace or self.paths + self.aborted_paths > 0:
                k = 0
                while k < len(prefix) and k < len(self.scope_trace) and prefix[k] == self.scope_trace[k]:
                    k += 1
                for _ in range(len(self.scope_trace) - k):
                    self.s.pop()
                del self.scope_trace[k:]
                self.kcommon = k
            self.trace = []
            self.tkey = 0
            self.seq = 0
            self.new_alts = []
            self.model = None
            self.fixed_cache = {}
            self.path_notes = []
            self.watches = []
            try:
                fn()
                self.paths += 1
            except Infeasible:
                self.aborted_paths += 1
            except Unsupported as e:
                self.aborted_paths += 1
                msg = str(e)
                if msg not in self.not_encoded:
                    self.not_encoded.append(msg)
            except Budget:
                self.budget_hit = True
            stack.extend(self.new_alts)
            if len(self.candidates) >= self.max_candidates:
                self.budget_hit = bool(stack)
                break
        return self

    def fresh(self, name, lo=None, hi=None):
        """A named symbolic integer input (optionally bounded, bounds are assumptions)."""
        if self.concrete is not None:
            v = self.concrete[name]
            if (lo is not None and v < lo) or (hi is not None and v > hi):
                raise Infeasible()
            return v
        if name not in self.inputs:
            self.inputs[name] = z3.Int(name)
            self.input_order.append(name)
        t = self.inputs[name]
        if lo is not None:
            self._add(t >= lo)
        if hi is not None:
            self._add(t <= hi)
        self.model = None
        return SymInt(t)

    def branch(self, cond):
        """cond: z3 BoolRef. Returns the Python bool chosen on this path."""
        cond = z3.simplify(cond)
        if z3.is_true(cond):
            return True
        if z3.is_false(cond):
            return False
        pos = len(self.trace)
        if pos < len(self.forced):
            d = self.forced[pos]
            if not isinstance(d, bool):
                raise Nondeterminism("branch met a concretisation decision on replay")
            self._add_dec(cond if d else z3.Not(cond), d)
            self.model = None
            return d
        from . import fpworld as _fw
        if _fw.active() and _fw.mentions_def(cond):
            return self._branch_fp(cond)
        m = self._ensure_model()
        side = z3.is_true(m.eval(cond, model_completion=True))
        other = z3.Not(cond) if side else cond
        r = self._q(other)
        if r == z3.sat:
            self.new_alts.append(self.trace + [not side])
        elif r == z3.unknown:
            self.unknown += 1
            self.undecided.append("branch feasibility unknown: %s" % str(other)[:200])
        self._add_dec(cond if side else z3.Not(cond), side)
        # cached model still satisfies pc
        return side

    def _branch_fp(self, cond):
        """Branch on a condition over binary64 results: feasibility of each side is decided in the float world (the
        integer solver sees the defined constants unconstrained).  `unknown` counts as feasible (over-approximation:
        obligations met on such a path are still decided with the full path condition in the float world)."""
        from . import fpworld as _fw
        asserts = list(self.s.assertions())
        t = time.time()
        old = _fw.CFG['z3_ms'], _fw.CFG['use_cvc5']
        _fw.CFG['z3_ms'], _fw.CFG['use_cvc5'] = 5000, False
        try:
            rt = _fw.decide(asserts, cond)[0]
            rf = _fw.decide(asserts, z3.Not(cond))[0]
        finally:
            _fw.CFG['z3_ms'], _fw.CFG['use_cvc5'] = old
        self.solver_s += time.time() - t
        self.queries += 2
        ft, ff = rt != 'unsat', rf != 'unsat'
        if not ft and not ff:
            raise Infeasible()
        side = ft
        if ft and ff:
            self.new_alts.append(self.trace + [False])
        self._add_dec(cond if side else z3.Not(cond), side)
        self.model = None
        return side

    def concretize(self, t):
        """Fork over the feasible values of term t in increasing order; returns a Python int."""
        t = z3.simplify(t)
        if z3.is_int_value(t):
            return t.as_long()
        while True:
            pos = len(self.trace)
            if pos < len(self.forced):
                if isinstance(self.forced[pos], bool):
                    if DEBUG_DET is not None:
                        import sys as _s; _s.stderr.write("NONDET(concretize) at %s first was: %s term %s\n" % (pos, DEBUG_DET.get((self.tkey, pos)), t))
                    raise Nondeterminism("concretisation met a branch decision on replay")
                v, taken = self.forced[pos]
                self._add_dec(t == v if taken else t != v, (v, taken))
                self.model = None
                if taken:
                    return v
                continue
            m = self._ensure_model()
            v = m.eval(t, model_completion=True).as_long()
            n = 0
            while True:
                r = self._q(t < v)
                if r != z3.sat:
                    if r == z3.unknown:
                        self.unknown += 1
                        self.undecided.append("concretize descent unknown")
                    break
                v = self.s.model().eval(t, model_completion=True).as_long()
                n += 1
                if n > 4096:
                    raise Unsupported("concretize: value unbounded below")
            r = self._q(t != v)
            if r == z3.sat:
                self.new_alts.append(self.trace + [(v, False)])
            elif r == z3.unknown:
                self.unknown += 1
                self.undecided.append("concretize alternative unknown")
            self._add_dec(t == v, (v, True))
            self.model = None
            return v

    def fixed(self, t):
        """If the path condition forces t to a single value return it (int), else None."""
        if z3.is_int_value(t):
            return t.as_long()
        k = t.get_id()
        if k in self.fixed_cache:
            return self.fixed_cache[k][0]
        mk_, e = self._memo_get(k)
        if e is not None:
            res = e[1]
        else:
            m = self._ensure_model()
            v = m.eval(t, model_completion=True)
            r = self._q(t != v)
            res = v.as_long() if r == z3.unsat else None
            self.memo[mk_] = (k, res, t)
        if res is not None:
            self.fixed_cache[k] = (res, t)    # keep the term alive: z3 ast ids are reused after GC
        return res

    def assume(self, cond):
        if isinstance(cond, bool):
            if not cond:
                raise Infeasible()
            return
        c = tobool(cond)
        self._add(c)
        if self.model is not None and not z3.is_true(self.model.eval(c, model_completion=True)):
            self.model = None
        self._ensure_model()

    def reached(self, label):
        """Reachability witness: counts feasible arrivals at an assertion site."""
        if self.concrete is None:
            self._ensure_model()
        self.reach[label] = self.reach.get(label, 0) + 1

    def check(self, cond, msg, info=None):
        """Obligation: cond must hold for every value on this path."""
        self.obligations += 1
        if isinstance(cond, bool):
            if cond:
                self.discharged += 1
                self._sample(msg, 'concrete-true')
                return True
            if self.concrete is None:
                from . import fpworld as _fw
                if _fw.active():
                    asserts = list(self.s.assertions())
                    if any(_fw.mentions_def(a) for a in asserts):
                        # the path itself may be infeasible in the float world (the integer solver does not know)
                        c = z3.BoolVal(False)
                        mk_, e = self._memo_get(c.get_id())
                        if e is not None:
                            self.obligations -= 1
                            return e[1]
                        return self._check_fp(c, msg, info, asserts, mk_)
            self._candidate(msg, None if self.concrete is not None else self._ensure_model(), info)
            return False
        c = z3.simplify(tobool(cond))
        if z3.is_false(c):
            self.obligations -= 1
            return self.check(False, msg, info)
        if z3.is_true(c):
            self.discharged += 1
            self._sample(msg, 'trivial')
            return True
        mk_, e = self._memo_get(c.get_id())
        if e is not None:
            self.obligations -= 1     # already counted (and decided) when first met
            return e[1]
        from . import fpworld as _fw
        if _fw.active():
            asserts = list(self.s.assertions())
            if _fw.mentions_def(c) or any(_fw.mentions_def(a) for a in asserts):
                return self._check_fp(c, msg, info, asserts, mk_)
        r = self._q(z3.Not(c))
        self.memo[mk_] = (c.get_id(), r == z3.unsat, c)
        if r == z3.unsat:
            self.discharged += 1
            self._sample(msg, c)
            return True
        if r == z3.sat:
            self._candidate(msg, self.s.model(), info)
            return False
        self.unknown += 1
        self.undecided.append("obligation unknown: %s" % msg)
        return False

    def _check_fp(self, c, msg, info, asserts, mk_):
        """Obligation over binary64 results: decided in the QF_BVFP world (symx.fpworld), never by the integer solver."""
        from . import fpworld as _fw
        t = time.time()
        verdict, vals, note = _fw.decide(asserts, z3.Not(c))
        self.solver_s += time.time() - t
        self.queries += 1
        self.memo[mk_] = (c.get_id(), verdict == 'unsat', c)
        if verdict == 'unsat':
            self.discharged += 1
            self._sample(msg, 'QF_BVFP unsat (%s)' % note)
            _fw.learn_equality(c)
            return True
        if verdict == 'sat':
            m = self._ensure_model()
            out = {}
            for n in self.input_order:
                out[n] = vals[n] if n in vals else m.eval(self.inputs[n], model_completion=True).as_long()
            for k, v in vals.items():
                if k.startswith('fp!') or k.startswith('fpb!'):
                    out[k] = v
            self.candidates.append(Candidate(msg, out, info(None) if callable(info) else info))
            return False
        self.unknown += 1
        self.undecided.append("float obligation undecided (%s): %s" % (note, msg))
        return False

    def _sample(self, msg, txt):
        if len(self.samples) < 6 and all(s['obligation'] != msg for s in self.samples):
            if not isinstance(txt, str):
                txt = txt.sexpr()[:240]
            self.samples.append({'obligation': msg, 'term': txt, 'path': self.paths + self.aborted_paths})

    def _candidate(self, msg, model, info):
        if self.concrete is not None:
            vals = dict(self.concrete)
        else:
            vals = {}
            for n in self.input_order:
                v = model.eval(self.inputs[n], model_completion=True)
                vals[n] = v.as_long()
            for w in self.watches:
                try:
                    vals.update(w(model))
                except Exception:
                    pass
        if callable(info):
            info = info(model)
        self.candidates.append(Candidate(msg, vals, info))

    def evalm(self, model, x):
        """Evaluate a SymInt/int under a model (for candidate reporting)."""
        if isinstance(x, SymInt):
            return model.eval(x.t, model_completion=True).as_long()
        return x

    def stats(self):
        return dict(paths=self.paths, aborted_paths=self.aborted_paths, queries=self.queries,
                    solver_s=round(self.solver_s, 3), unknown=self.unknown, nonlinear=self.nonlinear,
                    obligations=self.obligations, discharged=self.discharged,
                    candidates=len(self.candidates), budget_hit=self.budget_hit, memo_hits=self.memo_hits,
                    not_encoded=list(self.not_encoded), undecided=self.undecided[:10], reach=dict(self.reach))


# ---------------------------------------------------------------------- values
def tobool(c):
    if isinstance(c, SymBool):
        return c.t
    if isinstance(c, bool):
        return z3.BoolVal(c)
    if isinstance(c, z3.BoolRef):
        return c
    try:
        import numpy as _np
        if isinstance(c, _np.bool_):
            return z3.BoolVal(bool(c))
    except ImportError:
        pass
    raise TypeError("tobool %r" % type(c))


def is_sym(x):
    return isinstance(x, SymInt)


def term(x):
    if isinstance(x, SymInt):
        return x.t
    if isinstance(x, bool):
        return z3.IntVal(int(x))
    if isinstance(x, int):
        return z3.IntVal(x)
    try:
        import numpy as _np
        if isinstance(x, _np.integer):
            return z3.IntVal(int(x))
    except ImportError:
        pass
    raise TypeError("term(%r)" % type(x))


def mk(t, isfloat=False):
    """Build a value from a z3 Int term: plain int when the term is a literal."""
    t = z3.simplify(t)
    if z3.is_int_value(t):
        v = t.as_long()
        return float(v) if isfloat else v
    return SymInt(t, isfloat)


class SymBool:
    __slots__ = ('t',)

    def __init__(self, t):
        self.t = t

    def __bool__(self):
        return ENG.branch(self.t)

    def __and__(self, o):
        return mkbool(z3.And(self.t, tobool(o)))

    __rand__ = __and__

    def __or__(self, o):
        return mkbool(z3.Or(self.t, tobool(o)))

    __ror__ = __or__

    def __invert__(self):
        return mkbool(z3.Not(self.t))

    def __repr__(self):
        return "SymBool(%s)" % self.t

    def __hash__(self):
        return 1


def mkbool(t):
    t = z3.simplify(t)
    if z3.is_true(t):
        return True
    if z3.is_false(t):
        return False
    return SymBool(t)


def b_and(*cs):
    """Conjunction of bools / SymBools without forking."""
    acc = True
    for c in cs:
        if isinstance(c, bool):
            if not c:
                return False
            continue
        try:
            import numpy as _np
            if isinstance(c, _np.bool_):
                if not c:
                    return False
                continue
        except ImportError:
            pass
        acc = c if acc is True else (acc & c)
    return acc


def b_or(*cs):
    acc = False
    for c in cs:
        if not isinstance(c, (bool, SymBool)) and type(c).__name__ in ('bool', 'bool_'):
            c = bool(c)
        if isinstance(c, bool):
            if c:
                return True
            continue
        acc = c if acc is False else (acc | c)
    return acc


def b_not(c):
    if isinstance(c, SymBool):
        return ~c
    return not c


def _dyadic(f):
    """float -> (num, den) with den a power of two, or None."""
    if f != f or f in (float('inf'), float('-inf')):
        return None
    num, den = f.as_integer_ratio()
    return num, den


def _floordiv_t(a, b):
    if z3.is_int_value(b):
        bv = b.as_long()
        if bv > 0:
            return a / b
        if bv < 0:
            return (-a) / z3.IntVal(-bv)
        raise ZeroDivisionError("integer division or modulo by zero")
    fb = ENG.fixed(b)
    if fb is not None:
        return _floordiv_t(a, z3.IntVal(fb))
    if ENG.branch(b > 0):
        ENG.nonlinear += 1
        return a / b
    if ENG.branch(b < 0):
        ENG.nonlinear += 1
        return (-a) / (-b)
    raise ZeroDivisionError("integer division or modulo by zero")


def _mod_t(a, b):
    if z3.is_int_value(b):
        bv = b.as_long()
        if bv > 0:
            return a % b
        if bv < 0:
            return -((-a) % z3.IntVal(-bv))
        raise ZeroDivisionError("integer division or modulo by zero")
    fb = ENG.fixed(b)
    if fb is not None:
        return _mod_t(a, z3.IntVal(fb))
    if ENG.branch(b > 0):
        ENG.nonlinear += 1
        return a % b
    if ENG.branch(b < 0):
        ENG.nonlinear += 1
        return -((-a) % (-b))
    raise ZeroDivisionError("integer division or modulo by zero")


def _mul_t(a, b):
    if z3.is_int_value(a) or z3.is_int_value(b):
        return a * b
    fa = ENG.fixed(a)
    if fa is not None:
        return z3.IntVal(fa) * b
    fb = ENG.fixed(b)
    if fb is not None:
        return a * z3.IntVal(fb)
    ENG.nonlinear += 1
    return a * b


class _DeferToFloat(Exception):
    pass


FP_MODE = [False]     # when set, true division of a symbolic int yields a binary64 SymFloat (C05 float items)


def _defer(fn):
    def w(self, o):
        try:
            return fn(self, o)
        except _DeferToFloat:
            return NotImplemented
    w.__name__ = fn.__name__
    return w


class SymInt:
    """Symbolic Python int (isfloat=True: a float known to hold an integral value)."""
    __slots__ = ('t', 'isfloat')

    def __init__(self, t, isfloat=False):
        self.t = t
        self.isfloat = isfloat

    def _mk(self, t, isfloat=False):
        return mk(t, isfloat)

    # -- arithmetic
    def _coerce(self, o):
        """-> (term, isfloat) or None (NotImplemented)."""
        if type(o).__name__ in ('SymFloat', 'LazyArr'):
            raise _DeferToFloat()      # -> NotImplemented: the other operand's reflected method takes over
        if isinstance(o, SymInt):
            return o.t, o.isfloat
        if isinstance(o, bool):
            return z3.IntVal(int(o)), False
        if isinstance(o, int):
            return z3.IntVal(o), False
        if isinstance(o, float):
            if o == int(o):
                return z3.IntVal(int(o)), True
            return None
        try:
            import numpy as _np
            if isinstance(o, _np.integer):
                return z3.IntVal(int(o)), False
        except ImportError:
            pass
        return None

    @_defer
    def __add__(self, o):
        c = self._coerce(o)
        if c is None:
            return self._float_op('add', o)
        return self._mk(self.t + c[0], self.isfloat or c[1])

    __radd__ = __add__

    @_defer
    def __sub__(self, o):
        c = self._coerce(o)
        if c is None:
            return self._float_op('sub', o)
        return self._mk(self.t - c[0], self.isfloat or c[1])

    @_defer
    def __rsub__(self, o):
        c = self._coerce(o)
        if c is None:
            return self._float_op('rsub', o)
        return self._mk(c[0] - self.t, self.isfloat or c[1])

    @_defer
    def __mul__(self, o):
        c = self._coerce(o)
        if c is None:
            if isinstance(o, float):
                d = _dyadic(o)
                if d is not None:
                    num, den = d
                    # exact only when the product is integral: prove divisibility under the path condition
                    prod = self.t * num
                    if ENG.check_silent((prod % den) == 0):
                        return self._mk(prod / den, True)
                    return SymRat(SymInt(z3.simplify(prod)), den)
            return NotImplemented
        return self._mk(_mul_t(self.t, c[0]), self.isfloat or c[1])

    __rmul__ = __mul__

    @_defer
    def __floordiv__(self, o):
        c = self._coerce(o)
        if c is None:
            return self._float_op('floordiv', o)
        return self._mk(_floordiv_t(self.t, c[0]), self.isfloat or c[1])

    @_defer
    def __rfloordiv__(self, o):
        c = self._coerce(o)
        if c is None:
            return self._float_op('rfloordiv', o)
        return self._mk(_floordiv_t(c[0], self.t), self.isfloat or c[1])

    @_defer
    def __mod__(self, o):
        c = self._coerce(o)
        if c is None:
            return self._float_op('mod', o)
        return self._mk(_mod_t(self.t, c[0]), self.isfloat or c[1])

    @_defer
    def __rmod__(self, o):
        c = self._coerce(o)
        if c is None:
            return self._float_op('rmod', o)
        return self._mk(_mod_t(c[0], self.t), self.isfloat or c[1])

    @_defer
    def __truediv__(self, o):
        if FP_MODE[0]:
            from .symfloat import SymFloat, to_fp
            import z3 as _z3
            return SymFloat(_z3.fpDiv(_z3.RNE(), to_fp(self), to_fp(o)))
        # exact only when divisible; otherwise not encoded
        c = self._coerce(o)
        if c is not None and z3.is_int_value(c[0]) and c[0].as_long() != 0 and abs(c[0].as_long()) <= 65536:
            if ENG.check_silent((self.t % c[0]) == 0):
                return self._mk(_floordiv_t(self.t, c[0]), True)
        if c is not None and z3.is_int_value(c[0]) and 0 < c[0].as_long() <= 65536:
            return SymRat(self, c[0].as_long())
        return OpaqueNumber("true division of a symbolic integer (%s / %r)" % (self, o))

    def __rtruediv__(self, o):
        if isinstance(o, (int, float)) and not isinstance(o, bool):
            if ENG.branch(self.t > 0):
                return SymRat.of(o).__truediv__(SymRat(self, 1))
            if ENG.branch(self.t < 0):
                return SymRat.of(-o).__truediv__(SymRat(-self, 1))
            raise ZeroDivisionError("division by zero")
        return OpaqueNumber("true division by a symbolic integer")

    def _float_op(self, name, o):
        raise Unsupported("symbolic int %s non-integral/unknown operand %r" % (name, o))

    def __neg__(self):
        return self._mk(-self.t, self.isfloat)

    def __pos__(self):
        return self

    def __abs__(self):
        return self._mk(z3.If(self.t >= 0, self.t, -self.t), self.isfloat)

    # -- comparisons (no fork until used as bool)
    def _cmp(self, o, op):
        c = self._coerce(o)
        if c is None:
            if isinstance(o, float):
                # compare integer with non-integral float exactly
                import math
                fl = math.floor(o)
                if op == 'lt':
                    return mkbool(self.t <= fl)
                if op == 'le':
                    return mkbool(self.t <= fl)
                if op == 'gt':
                    return mkbool(self.t > fl)
                if op == 'ge':
                    return mkbool(self.t > fl)
                if op == 'eq':
                    return False
                if op == 'ne':
                    return True
            return NotImplemented
        a, b = self.t, c[0]
        return mkbool({'lt': a < b, 'le': a <= b, 'gt': a > b, 'ge': a >= b, 'eq': a == b, 'ne': a != b}[op])

    @_defer
    def __lt__(self, o):
        return self._cmp(o, 'lt')

    @_defer
    def __le__(self, o):
        return self._cmp(o, 'le')

    @_defer
    def __gt__(self, o):
        return self._cmp(o, 'gt')

    @_defer
    def __ge__(self, o):
        return self._cmp(o, 'ge')

    @_defer
    def __eq__(self, o):
        r = self._cmp(o, 'eq')
        return False if r is NotImplemented else r

    @_defer
    def __ne__(self, o):
        r = self._cmp(o, 'ne')
        return True if r is NotImplemented else r

    def __hash__(self):
        return 0

    def __bool__(self):
        return ENG.branch(self.t != 0)

    def __index__(self):
        if self.isfloat:
            raise TypeError("'float' object cannot be interpreted as an integer")
        return ENG.concretize(self.t)

    def __int__(self):
        return ENG.concretize(self.t)

    def __float__(self):
        return float(ENG.concretize(self.t))

    def __repr__(self):
        return "Sym(%s)" % self.t

    def __format__(self, spec):
        return "<sym>"

    def __str__(self):
        return "<sym>"

    # numpy-ish helpers used by repo code on scalars
    def astype(self, _t):
        return self


class SymRat:
    """Exact rational num/den (num: int or SymInt, den: positive int or SymInt implied positive): the value of an
    expression such as  symbolic_int * 0.5  or  32768 / symbolic_int.  Supports *, //, comparisons; nothing else."""
    __slots__ = ('num', 'den')

    def __init__(self, num, den):
        if isinstance(den, SymInt):
            if not ENG.check_silent(den.t > 0):
                raise Unsupported("rational with a denominator that is not provably positive")
        elif den <= 0:
            raise Unsupported("rational with a non-positive denominator")
        self.num, self.den = num, den

    @staticmethod
    def of(x):
        if isinstance(x, SymRat):
            return x
        if isinstance(x, float):
            n, d = x.as_integer_ratio()
            return SymRat(n, d)
        if isinstance(x, (int, SymInt)) and not isinstance(x, bool):
            return SymRat(x, 1)
        try:
            import numpy as _np
            if isinstance(x, _np.integer):
                return SymRat(int(x), 1)
            if isinstance(x, _np.floating):
                return SymRat.of(float(x))
        except ImportError:
            pass
        raise Unsupported("rational arithmetic with %r" % type(x))

    def __mul__(self, o):
        o = SymRat.of(o)
        return SymRat(self.num * o.num, self.den * o.den)

    __rmul__ = __mul__

    def __truediv__(self, o):
        o = SymRat.of(o)
        if isinstance(o.num, SymInt):
            if not ENG.check_silent(o.num.t > 0):
                raise Unsupported("division by a rational of unknown sign")
        elif o.num <= 0:
            raise Unsupported("division by a non-positive rational")
        return SymRat(self.num * o.den, self.den * o.num)

    def __rtruediv__(self, o):
        return SymRat.of(o).__truediv__(self)

    def __floordiv__(self, o):
        q = self.__truediv__(o)
        return q.num // q.den

    def __rfloordiv__(self, o):
        q = SymRat.of(o).__truediv__(self)
        return q.num // q.den

    def _cmp(self, o, op):
        o = SymRat.of(o)
        a, b = self.num * o.den, o.num * self.den
        return {'lt': lambda: a < b, 'le': lambda: a <= b, 'gt': lambda: a > b, 'ge': lambda: a >= b, 'eq': lambda: a == b, 'ne': lambda: a != b}[op]()

    def __lt__(self, o):
        return self._cmp(o, 'lt')

    def __le__(self, o):
        return self._cmp(o, 'le')

    def __gt__(self, o):
        return self._cmp(o, 'gt')

    def __ge__(self, o):
        return self._cmp(o, 'ge')

    def __eq__(self, o):
        try:
            return self._cmp(o, 'eq')
        except Unsupported:
            return False

    def __ne__(self, o):
        r = self.__eq__(o)
        return b_not(r)

    __hash__ = None

    def __neg__(self):
        return SymRat(-self.num, self.den)

    def __format__(self, spec):
        return '<rational>'

    def __str__(self):
        return '<rational>'

    __repr__ = __str__

    def _no(self, *a, **k):
        raise Unsupported("operation on a symbolic rational")

    __add__ = __radd__ = __sub__ = __rsub__ = __int__ = __float__ = __index__ = __bool__ = __mod__ = _no


class OpaqueNumber:
    """Result of an operation the engine does not model (non-integral real): may be formatted / printed, any use in
    arithmetic, comparison or indexing makes the work item 'not encoded'."""
    def __init__(self, why):
        self.why = why

    def __format__(self, spec):
        return '<real>'

    def __str__(self):
        return '<real>'

    __repr__ = __str__

    def _no(self, *a, **k):
        raise Unsupported(self.why)

    __add__ = __radd__ = __sub__ = __rsub__ = __mul__ = __rmul__ = __truediv__ = __rtruediv__ = __floordiv__ = __rfloordiv__ = _no
    __mod__ = __rmod__ = __lt__ = __le__ = __gt__ = __ge__ = __bool__ = __int__ = __float__ = __index__ = __neg__ = __abs__ = _no

    def __eq__(self, o):
        raise Unsupported(self.why)

    __hash__ = None


def _check_silent(self, cond):
    """Is cond implied by the path condition? (no statistics as obligation)."""
    c = z3.simplify(cond)
    if z3.is_true(c):
        return True
    if z3.is_false(c):
        return False
    mk_, e = self._memo_get(c.get_id())
    if e is not None:
        return e[1]
    r = self._q(z3.Not(c)) == z3.unsat
    self.memo[mk_] = (c.get_id(), r, c)
    return r


Engine.check_silent = _check_silent


def fx(v):
    """v if it is not symbolic or not forced to one value by the path condition, else that value (int)."""
    if isinstance(v, SymInt) and ENG is not None and ENG.concrete is None:
        r = ENG.fixed(v.t)
        if r is not None:
            return float(r) if v.isfloat else r
    return v


def implied(c):
    """True iff bool/SymBool c is implied by the current path condition (no fork)."""
    if isinstance(c, bool):
        return c
    return ENG.check_silent(tobool(c))


def feasible(c):
    if isinstance(c, bool):
        return c
    return ENG._q(tobool(c)) == z3.sat
