"""SymStr: strings made of literal pieces and symbolic tokens (a decimal number with a SymInt value, or an opaque
token of a character class), enough to run version-string parsing code symbolically.

Supported exactly for these token classes:  replace(old, new) when `old` cannot occur inside or across a token,
split(sep) for a literal separator, isdigit(), int(), len()-free iteration of the split result, ==/!= with literals.
Anything else raises Unsupported (work item not encoded).
"""
from .core import SymInt, is_sym, Unsupported, mk


class Num:
    """Decimal rendering of a non-negative integer value (SymInt or int), no sign, no leading zeros constraint."""
    def __init__(self, value):
        self.value = value

    def __repr__(self):
        return '<num>'


class Tok:
    """Opaque non-empty token over alphabet `chars` (a string of allowed characters)."""
    def __init__(self, name, chars):
        self.name, self.chars = name, chars

    def __repr__(self):
        return '<%s>' % self.name


DIGITS = '0123456789'


class SymStr:
    def __init__(self, segs):
        out = []
        for s in segs:
            if isinstance(s, str):
                if not s:
                    continue
                if out and isinstance(out[-1], str):
                    out[-1] += s
                    continue
            out.append(s)
        self.segs = out

    def sym_isinstance(self, cls):
        classes = cls if isinstance(cls, tuple) else (cls,)
        return True if str in classes else None

    def _alphabet(self, seg):
        if isinstance(seg, Num):
            return DIGITS
        return seg.chars

    def replace(self, old, new):
        if not isinstance(old, str) or not isinstance(new, str) or not old:
            raise Unsupported("SymStr.replace with non-literal arguments")
        # `old` must not be able to occur inside a token or across a token boundary
        for i, seg in enumerate(self.segs):
            if isinstance(seg, str):
                continue
            alpha = self._alphabet(seg)
            if any(c in alpha for c in old):
                # some character of `old` may occur inside the token: only safe if no split of `old` can be matched
                # conservatively require that `old` contains a character outside the alphabet at every alignment:
                if all(c in alpha for c in old):
                    raise Unsupported("replace(%r) could match inside a symbolic token" % old)
                left = self.segs[i - 1] if i > 0 and isinstance(self.segs[i - 1], str) else ''
                right = self.segs[i + 1] if i + 1 < len(self.segs) and isinstance(self.segs[i + 1], str) else ''
                for k in range(1, len(old)):
                    # old = old[:k] (ends the left literal / inside token) + old[k:] ...
                    if left.endswith(old[:k]) and all(c in alpha for c in old[k:]):
                        raise Unsupported("replace(%r) could match across a token boundary" % old)
                    if all(c in alpha for c in old[:k]) and right.startswith(old[k:]):
                        raise Unsupported("replace(%r) could match across a token boundary" % old)
        return SymStr([s.replace(old, new) if isinstance(s, str) else s for s in self.segs])

    def split(self, sep=None):
        if not isinstance(sep, str) or len(sep) != 1:
            raise Unsupported("SymStr.split with this separator")
        for seg in self.segs:
            if not isinstance(seg, str) and sep in self._alphabet(seg):
                raise Unsupported("separator may occur inside a symbolic token")
        parts, cur = [], []
        for seg in self.segs:
            if isinstance(seg, str):
                pieces = seg.split(sep)
                cur.append(pieces[0])
                for p in pieces[1:]:
                    parts.append(SymStr(cur))
                    cur = [p]
            else:
                cur.append(seg)
        parts.append(SymStr(cur))
        return [p.simplify() for p in parts]

    def simplify(self):
        if all(isinstance(s, str) for s in self.segs):
            return ''.join(self.segs)
        return self

    def isdigit(self):
        if not self.segs:
            return False
        for s in self.segs:
            if isinstance(s, str):
                if not s.isdigit():
                    return False
            elif isinstance(s, Num):
                continue
            else:
                if all(c in DIGITS for c in s.chars):
                    continue
                if not any(c in DIGITS for c in s.chars):
                    return False
                raise Unsupported("isdigit() of a token that may or may not be numeric")
        return True

    def isnumeric(self):
        return self.isdigit()

    def sym_int(self):
        if len(self.segs) == 1 and isinstance(self.segs[0], Num):
            return self.segs[0].value
        for s in self.segs:
            if isinstance(s, str) and any(c not in '0123456789+-_ \t\n' for c in s):
                # a character that no integer literal can contain: Python raises whatever the tokens hold
                raise ValueError("invalid literal for int() with base 10: %r" % str(self))
        raise Unsupported("int() of a composite symbolic string")

    def startswith(self, p):
        if self.segs and isinstance(self.segs[0], str) and len(self.segs[0]) >= len(p):
            return self.segs[0].startswith(p)
        if self.segs and isinstance(self.segs[0], str) and not p.startswith(self.segs[0]):
            return False
        raise Unsupported("startswith over a symbolic token")

    def __eq__(self, o):
        if isinstance(o, str):
            if all(isinstance(s, str) for s in self.segs):
                return ''.join(self.segs) == o
            # a string with a token of a class disjoint from o's characters at that position cannot equal o: be conservative
            lit = ''.join(s for s in self.segs if isinstance(s, str))
            if any(c not in o for c in lit):
                return False
            raise Unsupported("comparison of a symbolic string with %r" % o)
        return NotImplemented

    def __ne__(self, o):
        r = self.__eq__(o)
        return r if r is NotImplemented else (not r)

    __hash__ = None

    def __str__(self):
        return ''.join(s if isinstance(s, str) else repr(s) for s in self.segs)

    __repr__ = __str__

    def __format__(self, spec):
        return str(self)

    def concretize(self, model_eval, tokens):
        """Concrete string under a model: model_eval(SymInt)->int, tokens: {name: str}."""
        out = []
        for s in self.segs:
            if isinstance(s, str):
                out.append(s)
            elif isinstance(s, Num):
                out.append(str(model_eval(s.value)))
            else:
                out.append(tokens.get(s.name, s.chars[0]))
        return ''.join(out)
