"""Reference model of the SGZ container, written from docs/file-specification.md (not from the code).

Everything here works on ints and on SymInts alike.
"""
import struct
from symx.core import is_sym

DISK_BLOCK = 4096
HEADER_BYTES = 8192

# the 89 SEG-Y trace header fields (start bytes), in file order (segyio.tracefield)
TRACE_FIELDS = [1, 5, 9, 13, 17, 21, 25, 29, 31, 33, 35, 37, 41, 45, 49, 53, 57, 61, 65, 69, 71, 73, 77, 81, 85, 89, 91,
                93, 95, 97, 99, 101, 103, 105, 107, 109, 111, 113, 115, 117, 119, 121, 123, 125, 127, 129, 131, 133,
                135, 137, 139, 141, 143, 145, 147, 149, 151, 153, 155, 157, 159, 161, 163, 165, 167, 169, 171, 173,
                175, 177, 179, 181, 185, 189, 193, 197, 201, 203, 205, 209, 211, 213, 215, 217, 219, 223, 225, 229,
                231]


def trace_fields():
    import segyio
    return [int(f) for f in segyio.segy.Field(bytearray(240), kind='trace')]


def pad_to(n, m):
    """n rounded up to a multiple of m."""
    return ((n + m - 1) // m) * m


def unit_bits(rate, ndim):
    """Bits of one compressed 4^ndim cell at fixed rate `rate` (float or int)."""
    v = (4 ** ndim) * rate
    assert v == int(v)
    return int(v)


def unit_bytes(rate, ndim=3):
    b = unit_bits(rate, ndim)
    assert b % 8 == 0
    return b // 8


def padded_shape(dims, bs):
    return tuple(pad_to(n, b) for n, b in zip(dims, bs))


def cell_offset_3d(sp, bs, rate, i, x, z, data_start=HEADER_BYTES):
    """File offset of the first byte of the compressed 4x4x4 cell holding voxel (i, x, z).

    sp = padded shape. Blocks are 4096 bytes, ordered inline-block, crossline-block, z-block; inside a block cells are
    C-ordered over (il, xl, z) cell coordinates."""
    ub = unit_bytes(rate, 3)
    nbx, nbz = sp[1] // bs[1], sp[2] // bs[2]
    blk = ((i // bs[0]) * nbx + x // bs[1]) * nbz + z // bs[2]
    cell = (((i % bs[0]) // 4) * (bs[1] // 4) + (x % bs[1]) // 4) * (bs[2] // 4) + (z % bs[2]) // 4
    return data_start + blk * DISK_BLOCK + cell * ub


def cell_offset_2d(pad, bs, rate, t, z, data_start=HEADER_BYTES):
    """2D: pad = (padded traces, padded samples); blocks ordered trace-group then z-block; cells C-ordered."""
    ub = unit_bytes(rate, 2)
    nbz = pad[1] // bs[2]
    blk = (t // bs[1]) * nbz + z // bs[2]
    cell = ((t % bs[1]) // 4) * (bs[2] // 4) + (z % bs[2]) // 4
    return data_start + blk * DISK_BLOCK + cell * ub


def data_blocks_3d(dims, bs, rate):
    sp = padded_shape(dims, bs)
    bits = sp[0] * sp[1] * sp[2] * rate
    return int(bits // 8) // DISK_BLOCK if not is_sym(bits) else (bits // 8) // DISK_BLOCK


def data_blocks_2d(ntr, ns, bs, rate):
    bits = pad_to(ntr, bs[1]) * pad_to(ns, bs[2]) * rate
    return int(bits // 8) // DISK_BLOCK if not is_sym(bits) else (bits // 8) // DISK_BLOCK


V_0_2_1 = (0 << 21) + (2 << 11) + (1 << 1) + 1     # encoding of released 0.2.1
V_0_1_6 = (0 << 21) + (1 << 11) + (6 << 1) + 1


def encode_version(major, minor, patch, released):
    return major * 2 ** 21 + minor * 2 ** 11 + patch * 2 + (1 if released else 0)


def footer_stride(version_enc, entry_len):
    """Distance between consecutive header arrays in the footer for a file of that version."""
    if version_enc > V_0_2_1:
        return pad_to(entry_len, 512)
    return entry_len


def footer_offset(version_enc, n_data_blocks, entry_len, k, n_header_blocks=2):
    return n_header_blocks * DISK_BLOCK + n_data_blocks * DISK_BLOCK + k * footer_stride(version_enc, entry_len)


def rate_code(rate):
    """Header encoding of the bit rate (negative = reciprocal)."""
    if rate < 1:
        r = 1 / rate
        assert r == int(r)
        return -int(r)
    return int(rate)


# (offset, struct fmt, name) of the fields in bytes 0-100
HEADER_FIELDS = [
    (0, '<I', 'n_header_blocks'), (4, '<I', 'n_samples'), (8, '<I', 'n_xlines'), (12, '<I', 'n_ilines'),
    (16, '<i', 'z0'), (20, '<i', 'xl0'), (24, '<i', 'il0'), (28, '<i', 'interval'), (32, '<i', 'xl_step'),
    (36, '<i', 'il_step'), (40, '<i', 'rate_code'), (44, '<I', 'bs0'), (48, '<I', 'bs1'), (52, '<I', 'bs2'),
    (56, '<I', 'data_blocks'), (60, '<I', 'entry_len'), (64, '<I', 'n_arrays'), (68, '<I', 'tracecount'),
    (72, '<I', 'version'), (76, '<I', 'source'), (80, '<I', 'detection'),
]


def header_table_rows(stored, consts=None, dups=None):
    """89 rows (field, const, dup) for a file storing arrays for `stored` fields (in field order)."""
    consts = consts or {}
    dups = dups or {}
    rows = []
    for f in TRACE_FIELDS:
        if f in stored:
            rows.append((f, 0, f))
        elif f in dups:
            rows.append((f, 0, dups[f]))
        else:
            rows.append((f, consts.get(f, 0), 0))
    return rows


def table_bytes(rows):
    return b''.join(struct.pack('<iii', *r) for r in rows)
