"""Replay of C16 counterexamples: the schedule found by the BMC is forced on the REAL run_conversion_loop / producers /
compressor / writer (real numpy, zfpy, files) by scripted Thread / Queue / file wrappers that implement the documented
queue.Queue semantics and admit one operation at a time in the order the schedule dictates.  After the scripted prefix
everything runs freely.  Reproduced iff the conversion does not finish, or the file at return / shortly after differs
from the file of an ordinary run."""
import os
import threading
import time
import collections
import numpy as np
from replay.run import register, quiet
from replay import specio
from replay.writers import pin_version


class Ctl:
    def __init__(self, schedule):
        self.schedule = list(schedule)
        self.turn = 0
        self.cv = threading.Condition()
        self.ids = {}            # thread ident -> participant id
        self.next_id = 1
        self.invalid = None
        self.log = []

    def me(self):
        return self.ids.get(threading.get_ident(), 0 if threading.current_thread() is threading.main_thread() else None)

    def op(self, kind, enabled, do):
        """Perform one scheduled operation: wait for my turn (while the script lasts) and for `enabled()`."""
        me = self.me()
        with self.cv:
            while True:
                scripted = self.turn < len(self.schedule) and self.invalid is None
                if scripted and self.schedule[self.turn] != me:
                    self.cv.wait(0.05)
                    continue
                if not enabled():
                    if scripted:
                        self.invalid = 'step %d: thread %s scheduled for %s which is not enabled' % (self.turn, me, kind)
                        self.cv.notify_all()
                        continue
                    self.cv.wait(0.05)
                    continue
                r = do()
                self.log.append((me, kind))
                if scripted:
                    self.turn += 1
                self.cv.notify_all()
                return r


def make_stubs(ctl):
    class SThread:
        def __init__(self, group=None, target=None, name=None, args=(), kwargs=None, daemon=None):
            self.target, self.args, self.kwargs = target, args, kwargs or {}
            self.daemon = True
            self.pid = None

        def start(self):
            def body():
                ctl.ids[threading.get_ident()] = self.pid
                try:
                    self.target(*self.args, **self.kwargs)
                except Exception as e:
                    ctl.log.append((self.pid, 'exception %s' % type(e).__name__))

            def do():
                self.pid = ctl.next_id
                ctl.next_id += 1
                t = threading.Thread(target=body, daemon=True)
                self.os = t
                t.start()
            ctl.op('start', lambda: True, do)

    class SQueue:
        def __init__(self, maxsize=0):
            self.maxsize, self.items, self.unfinished = maxsize, collections.deque(), 0

        def put(self, item, block=True, timeout=None):
            def do():
                self.items.append(item)
                self.unfinished += 1
            ctl.op('put', lambda: not self.maxsize or len(self.items) < self.maxsize, do)

        def get(self, block=True, timeout=None):
            if timeout is not None:
                import queue as _q
                deadline = [time.time() + min(timeout, 1.0)]
                state = {}

                def en():
                    # scripted step on an empty queue = the schedule lets the timeout fire here
                    scripted = ctl.turn < len(ctl.schedule) and ctl.invalid is None
                    return bool(self.items) or scripted or time.time() > deadline[0]

                def do():
                    if self.items:
                        return self.items.popleft()
                    state['empty'] = True
                r = ctl.op('get', en, do)
                if state.get('empty'):
                    raise _q.Empty()
                return r
            return ctl.op('get', lambda: bool(self.items), lambda: self.items.popleft())

        def task_done(self):
            def do():
                self.unfinished -= 1
            ctl.op('task_done', lambda: True, do)

        def join(self):
            ctl.op('join', lambda: self.unfinished == 0, lambda: None)

    return SThread, SQueue


class SFile:
    def __init__(self, f, ctl):
        self.f, self.ctl, self.name = f, ctl, f.name

    def write(self, b):
        return self.ctl.op('write', lambda: True, lambda: self.f.write(b))

    def flush(self):
        return self.ctl.op('flush', lambda: True, lambda: self.f.flush())

    def __getattr__(self, n):
        return getattr(self.f, n)

    def __enter__(self):
        return self

    def __exit__(self, *a):
        self.f.close()
        return False


def run_conversion(route, n, cap, out, tmp):
    from seismic_zfp import conversion as C
    if route == 'numpy':
        cube = specio.random_cube((4 * n - 1, 5, 7), 0)
        with C.NumpyConverter(cube) as c:
            quiet(c.run, out, bits_per_voxel=8, blockshape=(4, 4, 256))
    else:
        from replay.segymake import make_segy
        sgy = os.path.join(tmp, 'in.sgy')
        if not os.path.exists(sgy):
            if route == 'segy2d':
                make_segy(sgy, '2d', (16 * n - 3, 7), fmt=5)
            else:
                make_segy(sgy, 'regular', (4 * n - 1, 5, 7), fmt=5)
        with C.SegyConverter(sgy) as c:
            quiet(c.run, out, bits_per_voxel=8, blockshape=(1, 16, 256) if route == 'segy2d' else (4, 4, 256))


@register('schedule')
def replay_schedule(req, tmp):
    pin_version('0.2.5')
    import builtins
    from seismic_zfp import conversion as C, conversion_utils as CU
    route, n, cap = req['route'], req['n'], req['cap']
    ref = os.path.join(tmp, 'ref.sgz')
    run_conversion(route, n, cap, ref, tmp)
    with open(ref, 'rb') as f:
        ref_bytes = f.read()
    ctl = Ctl(req['schedule'])
    SThread, SQueue = make_stubs(ctl)
    out = os.path.join(tmp, 'out.sgz')
    real_loop = CU.run_conversion_loop
    state = {}

    def loop(*a, **k):
        k['queue_size'] = cap
        r = real_loop(*a, **k)

        def snapshot():
            # what is on disk at the very moment the call returns (run_conversion_loop has flushed the handle)
            try:
                with builtins.open(out, 'rb') as f:
                    state['at_return'] = f.read()
            except Exception:
                state['at_return'] = b''
        ctl.op('ret', lambda: True, snapshot)
        return r

    def sopen(name, mode='r', *a, **k):
        f = builtins.open(name, mode, *a, **k)
        if name == out and 'w' in mode:
            return SFile(f, ctl)
        return f
    CU.Thread, CU.Queue, C.run_conversion_loop, C.open = SThread, SQueue, loop, sopen
    done = {}

    def job():
        ctl.ids[threading.get_ident()] = 0      # the conversion's calling thread is participant 0
        try:
            run_conversion(route, n, cap, out, tmp)
            done['ok'] = True
        except Exception as e:
            done['exc'] = '%s: %s' % (type(e).__name__, str(e)[:80])
    t = threading.Thread(target=job, daemon=True)
    t.start()
    t.join(25)
    what = 'schedule %s on the %s route, %d plane sets, queue capacity %d' % (req['schedule'], route, n, cap)
    if ctl.invalid:
        return dict(reproduced=False, detail='%s is not a schedule of the real code: %s' % (what, ctl.invalid), harness_error=True)
    if t.is_alive():
        return dict(reproduced=True, detail='%s: the conversion never returns (threads blocked after %d scripted operations)' % (what, ctl.turn),
                    extra=dict(outcome='deadlock'))
    if 'exc' in done:
        return dict(reproduced=True, detail='%s: the conversion raised %s' % (what, done['exc']), extra=dict(outcome='raised'))
    time.sleep(0.5)
    with open(out, 'rb') as f:
        final = f.read()
    import struct
    data_len = struct.unpack_from('<I', ref_bytes, 56)[0] * 4096
    at_ret = state.get('at_return', b'')
    if len(at_ret) != 8192 + data_len or at_ret[8192:] != ref_bytes[8192:8192 + data_len]:
        return dict(reproduced=True, detail='%s: when run_conversion_loop returned the file held %d bytes, not the header and all %d block bytes in order' % (
            what, len(at_ret), data_len), extra=dict(outcome='incomplete-at-return'))
    if final != ref_bytes:
        return dict(reproduced=True, detail='%s: the finished file differs from the file of an ordinary run (%d vs %d bytes)' % (what, len(final), len(ref_bytes)),
                    extra=dict(outcome='file-differs'))
    return dict(reproduced=False, detail='%s: file identical to the ordinary run' % what)
