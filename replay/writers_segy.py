"""Replay of SEG-Y-route counterexamples (C01, C04, C05, C08, C09, C11, C20): a real SEG-Y written by segyio, the real
SegyConverter, the real reader; oracles from segyio's view of the source."""
import os
import hashlib
import numpy as np
import segyio
from replay.run import NS, quiet, bits_equal
from replay import specio
from replay.segymake import make_segy
from replay.writers import pin_version, zfp_image, check_container_file


def grid_from_traces(traces, pos, dims):
    cube = np.zeros(dims, dtype=np.float32)
    for t, (i, x) in enumerate(pos):
        cube[i, x] = traces[t]
    return cube


def replay_segy(req, tmp):
    m_ = req['model']
    o = req.get('opts') or {}
    kind = req['route'].split('-', 1)[1]
    pin_version(o.get('version', '0.2.5'))
    from seismic_zfp.conversion import SegyConverter
    import seismic_zfp.read as R
    bs, rate = tuple(req['bs']), req['rate']
    prop = req.get('prop')
    sgy, sgz = os.path.join(tmp, 'in.sgy'), os.path.join(tmp, 'out.sgz')
    il0, xl0 = m_.get('il0', o.get('il0', 10)), m_.get('xl0', o.get('xl0', 20))
    il_step, xl_step = o.get('il_step', 1), o.get('xl_step', 1)
    varying = list(o.get('varying', ()))
    rng = np.random.default_rng(11)

    def extra(t, i, x):
        d = {}
        for f in varying:
            d[segyio.TraceField(f)] = int(m_.get('hv_%d_%d' % (f, t), (7919 * (t + 1) * (f + 3)) % 30011 - 15000))
        for f, v in (o.get('consts') or {}).items():
            d[segyio.TraceField(int(f))] = int(v)
        return d
    if kind == '2d':
        dims = (m_['n_tr'], m_['n_s'])
    else:
        dims = (m_['n_il'], m_['n_xl'], m_['n_s'])
    holes = [m_[k] for k in sorted(m_) if k.startswith('hole')]
    traces, headers, pos = make_segy(sgy, kind if kind != 'irregular' else 'irregular', dims, fmt=o.get('fmt', 1), ext=o.get('ext', 0), il0=il0,
                                     il_step=il_step, xl0=xl0, xl_step=xl_step, dt_us=int(m_['dt_us']) if 'dt_us' in m_ else int(m_.get('dt_ms', o.get('dt_ms', 4)) * 1000),
                                     t0_ms=m_.get('t0_ms', o.get('t0_ms', 0)),
                                     holes=holes, extra=extra)
    kw = {}
    if o.get('window') == 'sym':
        kw = dict(min_il=m_['min_il'], max_il=m_['max_il'], min_xl=m_['min_xl'], max_xl=m_['max_xl'])
    what = 'SegyConverter(%s %s, format %s, %d ext headers%s).run(bits_per_voxel=%s, blockshape=%s, reduce_iops=%s, header_detection=%s)' % (
        kind, dims, o.get('fmt', 1), o.get('ext', 0), ', window %s' % kw if kw else '', o.get('bpv_in', rate), tuple(o.get('bs_in', bs)),
        bool(o.get('reduce_iops')), o.get('detection', 'heuristic'))
    if prop == 'C18':
        from replay.writers import crash_replay

        def convert():
            with SegyConverter(sgy, **kw) as conv:
                quiet(conv.run, sgz, bits_per_voxel=o.get('bpv_in', rate), blockshape=tuple(o.get('bs_in', bs)),
                      reduce_iops=bool(o.get('reduce_iops')), header_detection=o.get('detection', 'heuristic'))
        return crash_replay(req, convert, sgz, tmp, dims, kind == '2d', what)
    try:
        with SegyConverter(sgy, **kw) as conv:
            if o.get('runs') == 2:
                quiet(conv.run, os.path.join(tmp, 'first.sgz'), bits_per_voxel=4, blockshape=(1, 16, -1) if kind == '2d' else (4, 4, -1))
            quiet(conv.run, sgz, bits_per_voxel=o.get('bpv_in', rate), blockshape=tuple(o.get('bs_in', bs)),
                  reduce_iops=bool(o.get('reduce_iops')), header_detection=o.get('detection', 'heuristic'))
    except Exception as e:
        return dict(reproduced=True, detail='%s raised %s: %s' % (what, type(e).__name__, str(e)[:100]), extra=dict(outcome='writer-raised'))
    # the source restricted to the window (C11): what converting the windowed cube alone would see
    if kind == '2d':
        src = traces
        src_headers = headers
    else:
        full = grid_from_traces(traces, pos, dims)
        if kw:
            src = full[kw['min_il']:kw['max_il'], kw['min_xl']:kw['max_xl']]
        else:
            src = full
    if prop in ('C01', 'C09', 'C11'):
        r = R.SgzReader(sgz)
        try:
            if kind == '2d':
                got = quiet(r.read_subplane, 0, dims[0], 0, dims[1])
                exp = zfp_image(src, rate)
            else:
                got = quiet(r.read_volume)
                exp = zfp_image(src, rate) if kind != 'irregular' else zfp_image_zero(src, rate)
        except Exception as e:
            return dict(reproduced=True, detail='%s: reading the volume back raised %s: %s' % (what, type(e).__name__, str(e)[:80]), extra=dict(outcome='read-raised'))
        finally:
            r.close()
        if got.shape != exp.shape:
            return dict(reproduced=True, detail='%s: volume read back has shape %s, source %s' % (what, got.shape, exp.shape), extra=dict(outcome='shape'))
        # the one-sample read the solver's model points at (a different read path than the whole-volume read)
        try:
            r = R.SgzReader(sgz)
            if kind == '2d' and 't' in m_:
                one = quiet(r.read_subplane, m_['t'], m_['t'] + 1, m_['z'], m_['z'] + 1)
                if not bits_equal(np.asarray(one).reshape(-1), exp[m_['t'], m_['z']].reshape(-1)):
                    return dict(reproduced=True, detail='%s: read_subplane(%d,%d,%d,%d) differs from the ZFP image of the source' % (
                        what, m_['t'], m_['t'] + 1, m_['z'], m_['z'] + 1), extra=dict(outcome='values'))
            elif kind != '2d' and 'i' in m_ and all(m_[k] < n for k, n in zip('ixz', exp.shape)):
                one = quiet(r.read_subvolume, m_['i'], m_['i'] + 1, m_['x'], m_['x'] + 1, m_['z'], m_['z'] + 1)
                if not bits_equal(np.asarray(one).reshape(-1), exp[m_['i'], m_['x'], m_['z']].reshape(-1)):
                    return dict(reproduced=True, detail='%s: read_subvolume of voxel (%d,%d,%d) differs from the ZFP image of the source' % (
                        what, m_['i'], m_['x'], m_['z']), extra=dict(outcome='values'))
            r.close()
        except Exception as e:
            return dict(reproduced=True, detail='%s: the one-sample read raised %s' % (what, type(e).__name__), extra=dict(outcome='read-raised'))
        if not bits_equal(got, exp):
            g, e = np.ascontiguousarray(got, dtype=np.float32).view(np.uint32), np.ascontiguousarray(exp, dtype=np.float32).view(np.uint32)
            return dict(reproduced=True, detail='%s: volume read back differs bitwise from the ZFP image of the edge-extended source at %d of %d samples (first %s)' % (
                what, int(np.count_nonzero(g != e)), e.size, np.argwhere(g != e)[0].tolist()), extra=dict(outcome='values'))
        if prop != 'C11':      # (C11 goes on to compare headers, axes and counts of the windowed file)
            return dict(reproduced=False, detail='%s: read-back is bit-identical to the ZFP image of the source' % what)
    if prop == 'C20':
        with open(sgz, 'rb') as f:
            f.seek(960)
            got = f.read(20)
        want = hashlib.sha1(np.ascontiguousarray(traces if kind == '2d' else src, dtype=np.float32).tobytes()).digest()
        if got != want:
            return dict(reproduced=True, detail='%s: stored hash %s.. != SHA-1 of the source samples %s..' % (what, got.hex()[:12], want.hex()[:12]), extra=dict(outcome='hash'))
        return dict(reproduced=False, detail='%s: hash equals SHA-1 of the source' % what)
    if prop == 'C08':
        bad = []
        try:
            r = R.SgzReader(sgz)
            il = il0 + il_step * np.arange(dims[0])
            xl = xl0 + xl_step * np.arange(dims[1])
            if (r.n_ilines, r.n_xlines, r.n_samples) != tuple(dims):
                bad.append('grid %s (inferred grid %s)' % ((r.n_ilines, r.n_xlines, r.n_samples), tuple(dims)))
            if not np.array_equal(np.asarray(r.ilines), il):
                bad.append('ilines %s (source %s)' % (np.asarray(r.ilines).tolist(), il.tolist()))
            if not np.array_equal(np.asarray(r.xlines), xl):
                bad.append('xlines %s (source %s)' % (np.asarray(r.xlines).tolist(), xl.tolist()))
            if r.tracecount != len(pos) or r.structured:
                bad.append('tracecount %s structured %s (source has %d traces on a %dx%d grid)' % (r.tracecount, r.structured, len(pos), dims[0], dims[1]))
            exp = zfp_image_zero(full, rate)
            if not bad:
                vol = quiet(r.read_volume)
                if vol.shape != exp.shape or not bits_equal(vol, exp):
                    bad.append('volume differs from the ZFP image of the zero-filled grid')
                for t in sorted(set([0, len(pos) - 1, min(m_.get('trace', 0), len(pos) - 1)])):
                    tr = quiet(r.get_trace, t)
                    i, x = pos[t]
                    if not bits_equal(np.asarray(tr), exp[i, x]):
                        bad.append('get_trace(%d) is not source trace %d (grid %d,%d)' % (t, t, i, x))
                    h = quiet(r.gen_trace_header, t)
                    for f in ((1, 189, 193) if o.get('detection', 'heuristic') == 'heuristic' else (1, 73, 189, 193)):
                        if int(h[segyio.tracefield.TraceField(f)]) != int(headers[t][segyio.TraceField(f)]):
                            bad.append('header %d field %d = %d (source %d)' % (t, f, int(h[segyio.tracefield.TraceField(f)]), int(headers[t][segyio.TraceField(f)])))
                r.close()
                for f, ax in ((189, il[:, None] + 0 * xl[None, :]), (193, 0 * il[:, None] + xl[None, :])):
                    r = R.SgzReader(sgz)      # (a reader that has regenerated headers refuses the padded view by assertion)
                    g = np.asarray(quiet(r.get_tracefield_values, f))
                    r.close()
                    want = np.zeros(dims[:2], dtype=np.int64)
                    for (i, x) in pos:
                        want[i, x] = ax[i, x]
                    if g.shape != want.shape or not np.array_equal(g, want):
                        bad.append('get_tracefield_values(%d) is not the grid with zeros at holes' % f)
            r.close()
        except Exception as e:
            bad.append('reading back raised %s: %s' % (type(e).__name__, str(e)[:80]))
        if bad:
            return dict(reproduced=True, detail='%s: %s' % (what, '; '.join(bad[:5])), extra=dict(outcome='irregular'))
        return dict(reproduced=False, detail='%s: irregular read-back equals the source' % what)
    if prop in ('C04', 'C05', 'C11'):
        r = R.SgzReader(sgz)
        try:
            bad = []
            if kind == '2d':
                n_out = dims[0]
                src_of = lambda t: t
            elif kw:
                wx = kw['max_xl'] - kw['min_xl']
                n_out = (kw['max_il'] - kw['min_il']) * wx
                src_of = lambda t: (kw['min_il'] + t // wx) * dims[1] + (kw['min_xl'] + t % wx)
            else:
                n_out = dims[0] * dims[1]
                src_of = lambda t: t
            if prop in ('C04', 'C11'):
                det = o.get('detection', 'heuristic')
                ts = sorted(set([m_.get('hdr_trace', 0), 0, n_out - 1]))
                for t in ts:
                    if not 0 <= t < n_out:
                        continue
                    try:
                        h = quiet(r.gen_trace_header, t)
                    except Exception as e:
                        bad.append('gen_trace_header(%d) raised %s' % (t, type(e).__name__))
                        continue
                    sh = headers[src_of(t)]
                    for f in specio.TRACE_FIELDS:
                        want = 0 if det == 'strip' else int(sh[segyio.TraceField(f)])
                        if int(h[segyio.tracefield.TraceField(f)]) != want:
                            bad.append('trace %d field %d = %d (source %d)' % (t, f, int(h[segyio.tracefield.TraceField(f)]), want))
                with open(sgy, 'rb') as f1, open(sgz, 'rb') as f2:
                    f2.seek(4096)
                    if f1.read(3600) != f2.read(3600):
                        bad.append('stored SEG-Y file header differs from the source')
            if prop in ('C05', 'C11') and kind != '2d':
                lo_i, hi_i = (kw['min_il'], kw['max_il']) if kw else (0, dims[0])
                lo_x, hi_x = (kw['min_xl'], kw['max_xl']) if kw else (0, dims[1])
                il = il0 + il_step * np.arange(lo_i, hi_i)
                xl = xl0 + xl_step * np.arange(lo_x, hi_x)
                if not np.array_equal(np.asarray(r.ilines), il):
                    bad.append('ilines %s (source %s)' % (np.asarray(r.ilines)[:4].tolist(), il[:4].tolist()))
                if not np.array_equal(np.asarray(r.xlines), xl):
                    bad.append('xlines %s (source %s)' % (np.asarray(r.xlines)[:4].tolist(), xl[:4].tolist()))
                if r.tracecount != len(il) * len(xl) or not r.structured:
                    bad.append('tracecount %s structured %s (window %dx%d)' % (r.tracecount, r.structured, len(il), len(xl)))
            if prop == 'C05' and 'dt_us' in m_:
                import struct as _st
                with open(sgz, 'rb') as fh:
                    hb = fh.read(64)
                iv = _st.unpack_from('<i', hb, 28)[0]
                if iv != m_['dt_us']:
                    bad.append('stored sample interval %d us (source %d us)' % (iv, m_['dt_us']))
            if prop in ('C05', 'C11'):
                zs = m_.get('t0_ms', o.get('t0_ms', 0)) + (m_['dt_us'] / 1000.0 if 'dt_us' in m_ else m_.get('dt_ms', o.get('dt_ms', 4))) * np.arange(dims[-1])
                if len(r.zslices) != dims[-1] or not np.allclose(np.asarray(r.zslices), zs, rtol=0, atol=1e-6):
                    bad.append('sample axis len %d %s (source len %d %s)' % (len(r.zslices), np.asarray(r.zslices)[:3].tolist(), dims[-1], zs[:3].tolist()))
            if prop == 'C11':
                got = quiet(r.read_volume)
                exp = zfp_image(src, rate)
                if got.shape != exp.shape or not bits_equal(got, exp):
                    bad.append('volume (shape %s) is not the ZFP image of the windowed cube (shape %s)' % (got.shape, exp.shape))
        except Exception as e:
            bad.append('reading back raised %s: %s' % (type(e).__name__, str(e)[:80]))
        finally:
            r.close()
        if bad:
            return dict(reproduced=True, detail='%s: %s' % (what, '; '.join(bad[:5])), extra=dict(outcome=prop.lower()))
        return dict(reproduced=False, detail='%s: read-back equals the source' % what)
    return dict(reproduced=False, detail='no SEG-Y replayer for property %s' % prop)


def zfp_image_zero(cube, rate):
    """Irregular route: zero-filled grid, zero-extended to the multiple of 4 (the property's definition for holes)."""
    sp = tuple(specio.pad_to(n, 4) for n in cube.shape)
    padded = np.zeros(sp, dtype=np.float32)
    padded[tuple(slice(0, n) for n in cube.shape)] = cube
    code = specio.zfp_block(padded, rate)
    return np.asarray(specio.zfp_decode(code, sp, rate))[tuple(slice(0, n) for n in cube.shape)]
