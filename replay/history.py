"""Replay of C15 counterexamples: the recorded history on real reader objects over a real spec-written file; the last
result is compared with the independent oracle (which is what a fresh reader returns)."""
import numpy as np
from replay.run import register, NS, quiet, build_case, compare_result

ROLE = {'read_inline': 'iline', 'read_crossline': 'xline', 'read_zslice': 'depth_slice', 'read_subvolume': 'subvolume',
        'get_trace': 'trace', 'get_trace_window': 'trace', 'gen_trace_header': 'header', 'gen_trace_header_all': 'header', 'gen_trace_header_irregular': 'header', 'get_trace_irregular': 'trace'}


@register('history')
def replay_history(req, tmp):
    from harness import readers
    import seismic_zfp.read as R
    from seismic_zfp.segyio_emulator import SegyioEmulator
    C = build_case(req, tmp)
    m_ = req['model']
    table = readers.METHODS_2D if C.is2d else readers.METHODS
    ms = [table[n] for n in req['hist']]
    kw = dict(chunk_cache_size=req.get('chunk_cache_size'), preload=bool(req.get('preload')))
    config = req.get('config', 'same')
    handles = []
    if config == 'emu':
        fh = open(C.path, 'rb')
        handles.append(fh)
        emu = SegyioEmulator(fh, chunk_cache_size=req.get('chunk_cache_size'))
        objs = dict(self=emu, trace=emu.trace, header=emu.header)
        if not C.is2d:
            objs.update(iline=emu.iline, xline=emu.xline, depth_slice=emu.depth_slice, subvolume=emu.subvolume)
        who = lambda k, m: objs.get(ROLE.get(m.name.replace('_2d', ''), 'self'), emu)
    elif config == 'two-files':
        import shutil
        from replay import specio
        other = C.path + '.other.sgz'
        req2 = dict(req)
        req2['seed'] = 99
        import tempfile
        d2 = tempfile.mkdtemp(prefix='verif-other-')
        C2 = build_case(req2, d2)
        ra, rb = R.SgzReader(C2.path, **kw), R.SgzReader(C.path, **kw)
        who = lambda k, m: rb if k == len(ms) - 1 else ra
    elif config in ('two', 'two-close'):
        ra, rb = R.SgzReader(C.path, **kw), R.SgzReader(C.path, **kw)
        who = lambda k, m: rb if k == len(ms) - 1 else ra
    else:
        r0 = R.SgzReader(C.path, **kw)
        who = lambda k, m: r0
    steps = []
    kept = None
    for k, m in enumerate(ms[:-1]):
        a = [m_['h%d_%s' % (k, n)] for n in m.argn]
        obj = who(k, m)
        obj._verif_stored = tuple(C.stored)
        try:
            r_k = quiet(m.call, obj, a)
            if k == 0 and m.kind == 'voxels' and config != 'two-files':
                kept = (m, a, r_k)      # held by the caller, NOT copied
            steps.append('%s%s' % (m.name, tuple(a)))
        except Exception as e:
            steps.append('%s%s raised %s' % (m.name, tuple(a), type(e).__name__))
    if config == 'two-close':
        ra.close()
        steps.append('first reader closed')
    obj = who(len(ms) - 1, ms[-1])
    obj._verif_stored = tuple(C.stored)
    hist = 'after [%s] (%s): ' % ('; '.join(steps), config)
    try:
        res = quiet(C.m.call, obj, C.args)
    except Exception as e:
        return dict(reproduced=True, detail=hist + '%s raised %s: %s (a fresh reader returns the slice)' % (C.call, type(e).__name__, str(e)[:80]),
                    extra=dict(outcome='raised'))
    finally:
        for h in handles:
            h.close()
    bad = compare_result(C, res, req)
    if bad is not None:
        return dict(reproduced=True, detail=hist + bad[1], extra=dict(outcome=bad[0]))
    if kept is not None:
        # the array the first call returned, still held by the caller, must still be the slice it denoted
        m0, a0, r0 = kept
        C0 = NS()
        C0.__dict__.update(C.__dict__)
        C0.m, C0.args = m0, a0
        C0.call = 'the array returned earlier by %s%s' % (m0.name, tuple(a0))
        bad = compare_result(C0, r0, dict(req, method=m0.name))
        if bad is not None:
            return dict(reproduced=True, detail=hist + 'and the later %s: ' % C.call + bad[1] + ' (it was changed by the later read)',
                        extra=dict(outcome='kept-' + bad[0]))
    return dict(reproduced=False, detail=hist + '%s equals what a fresh reader returns' % C.call)
