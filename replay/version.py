"""Replay of version-codec counterexamples on the real seismic_zfp.version (no stubs) against an independent oracle."""
from replay.run import register


def oracle_enc(M, m, p, released):
    return (M << 21) + (m << 11) + (p << 1) + (1 if released else 0)


@register('version')
def replay_version(req, tmp):
    from seismic_zfp.version import SeismicZfpVersion as V
    m_ = req['model']
    what = req.get('what')
    if req.get('shape'):
        toks = req['shapes'][req['shape']]
        vals = dict(M=str(m_['major']), m=str(m_['minor']), p=str(m_['patch']), N=str(m_.get('N', 0)), K=str(m_.get('K', 0)), H='45bcf9689', D='20240131')
        s = ''.join(vals.get(t, t) for t in toks)
        rel = [m_['major']] + ([m_['minor']] if 'm' in toks else []) + ([m_['patch']] if 'p' in toks else [])
        rel = (rel + [0, 0])[:3]
        suffix = any(t not in ('M', 'm', 'p', '.') for t in toks)
        try:
            v = V(s)
        except Exception as e:
            return dict(reproduced=True, detail="SeismicZfpVersion(%r) raised %s: %s" % (s, type(e).__name__, e), extra=dict(outcome='raised'))
        want = oracle_enc(rel[0], rel[1], rel[2], not suffix)
        if (v.major, v.minor, v.patch, bool(v.changes_exist), v.encoding) != (rel[0], rel[1], rel[2], suffix, want):
            return dict(reproduced=True, detail="SeismicZfpVersion(%r) = (%s,%s,%s,dev=%s) encoding %s; expected (%s,%s,%s,dev=%s) encoding %s" % (
                s, v.major, v.minor, v.patch, v.changes_exist, v.encoding, rel[0], rel[1], rel[2], suffix, want), extra=dict(outcome='parse'))
        return dict(reproduced=False, detail="SeismicZfpVersion(%r) parsed correctly" % s)

    def mk(prefix):
        t = (m_[prefix + 'major'], m_[prefix + 'minor'], m_[prefix + 'patch'])
        return V(t + ('.dev',)) if m_[prefix + 'dev'] else V(t), t + (0 if m_[prefix + 'dev'] else 1,)
    if what == 'version-roundtrip':
        v, k = mk('')
        w = V(v.encoding)
        ok = (v.encoding == oracle_enc(k[0], k[1], k[2], k[3]) and 0 <= v.encoding < 2 ** 23 and
              (w.major, w.minor, w.patch, 0 if w.changes_exist else 1) == k and w.encoding == v.encoding)
        return dict(reproduced=not ok, detail='version %s -> encoding %s -> %s' % (k, v.encoding, (w.major, w.minor, w.patch, w.changes_exist)),
                    extra=dict(outcome='roundtrip'))
    if what == 'version-decode-total':
        e = m_['encoding']
        w = V(e)
        ok = w.encoding == e and 0 <= w.major < 4 and 0 <= w.minor < 1024 and 0 <= w.patch < 1024 and V(w.to_tuple()).encoding == e
        return dict(reproduced=not ok, detail='encoding %s decodes to %s (re-encodes to %s)' % (e, w.to_tuple(), w.encoding), extra=dict(outcome='decode'))
    if what == 'version-order':
        (va, ka), (vb, kb) = mk('a_'), mk('b_')
        ok = ((ka < kb) == (va.encoding < vb.encoding)) and ((vb > va) == (ka < kb)) and ((va == vb) == (ka == kb))
        return dict(reproduced=not ok, detail='versions %s (enc %s) and %s (enc %s): order / equality through the encoding disagrees with release order' % (
            ka, va.encoding, kb, vb.encoding), extra=dict(outcome='order'))
    if what == 'version-gates':
        e = m_['encoding']
        w = V(e)
        key = (w.major, w.minor, w.patch, 0 if w.changes_exist else 1)
        bad = [g for g, gk in (('0.2.1', (0, 2, 1, 1)), ('0.1.6', (0, 1, 6, 1))) if (w > V(g)) != (key > gk)]
        return dict(reproduced=bool(bad), detail='encoding %s = %s: gates %s wrong' % (e, key, bad), extra=dict(outcome='gate'))
    return dict(reproduced=False, detail='unknown version obligation')
