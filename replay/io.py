"""Replay of C07 counterexamples: the real reader on a real spec-written file behind a counting file object."""
import os
import numpy as np
from replay.run import register, NS, quiet
from replay import specio


class CountingFile:
    """Real file wrapper logging (offset, length) of every read."""
    def __init__(self, path):
        self.f = open(path, 'rb')
        self.name = path
        self.log = []
        self._pos = 0

    def seek(self, off, whence=0):
        r = self.f.seek(off, whence)
        self._pos = self.f.tell()
        return r

    def read(self, n=-1):
        pos = self.f.tell()
        b = self.f.read(n)
        self.log.append((pos, n, len(b)))
        return b

    def tell(self):
        return self.f.tell()

    def close(self):
        self.f.close()


def needed_blocks(T, boxes, is2d):
    out = set()
    if is2d:
        bsz = (T.bs[1], T.bs[2])
        nbz = T.pad[1] // T.bs[2]
        for lo, hi in boxes:
            for g in range(lo[0] // bsz[0], hi[0] // bsz[0] + 1):
                for z in range(lo[1] // bsz[1], hi[1] // bsz[1] + 1):
                    out.add(g * nbz + z)
        return out
    nbx, nbz = T.pad[1] // T.bs[1], T.pad[2] // T.bs[2]
    for lo, hi in boxes:
        for i in range(lo[0] // T.bs[0], hi[0] // T.bs[0] + 1):
            for x in range(lo[1] // T.bs[1], hi[1] // T.bs[1] + 1):
                for z in range(lo[2] // T.bs[2], hi[2] // T.bs[2] + 1):
                    out.add((i * nbx + x) * nbz + z)
    return out


@register('io')
def replay_io(req, tmp):
    from harness import readers
    import seismic_zfp.read as R
    m_ = req['model']
    bs, rate = tuple(req['bs']), req['rate']
    is2d = bs[0] == 1
    path = os.path.join(tmp, 'r.sgz')
    T = NS()
    T.bs, T.rate = bs, rate
    version = req.get('version') or specio.enc_version(0, 2, 5)
    if is2d:
        ntr, ns = m_['n_tr'], m_['n_s']
        specio.write_sgz_2d(path, specio.random_cube((ntr, ns), 0), bs, rate, version=version)
        T.dims = (ntr, ns)
        T.pad = (specio.pad_to(ntr, bs[1]), specio.pad_to(ns, bs[2]))
        m = readers.METHODS_2D[req['method']]
    else:
        dims = (m_['n_il'], m_['n_xl'], m_['n_s'])
        T.il0, T.xl0, T.il_step, T.xl_step = 1, 1, 1, 1
        specio.write_sgz_3d(path, specio.random_cube(dims, 0), bs, rate, version=version)
        T.dims = dims
        T.pad = tuple(specio.pad_to(n, b) for n, b in zip(dims, bs))
        m = readers.METHODS[req['method']]
    args = [m_[n] for n in m.argn]
    f = CountingFile(path)
    r = R.SgzReader(f, preload=req.get('preload', False), chunk_cache_size=req.get('chunk_cache_size'))
    if req.get('warm'):
        a0 = [m_['w_' + n] for n in m.argn]
        try:
            quiet(m.call, r, a0)
        except Exception:
            pass
    n0 = len(f.log)
    try:
        quiet(m.call, r, args)
    except Exception as e:
        return dict(reproduced=False, detail='call raised %s' % type(e).__name__)
    finally:
        log = f.log[n0:]
        f.close()
    call = '%s(%s) on %s, blockshape %s, rate %s' % (req['method'], ', '.join('%s=%s' % kv for kv in zip(m.argn, args)), T.dims, bs, rate)
    if req.get('preload'):
        if log:
            return dict(reproduced=True, detail='%s with preload issued %d reads after open' % (call, len(log)), extra=dict(outcome='preload-reads'))
        return dict(reproduced=False, detail='no reads after open with preload')
    d = m.denote(T, args)
    shape, vox = d
    if 'diagonal' in m.name:
        boxes = [(vox((k, 0)), vox((k, shape[1] - 1))) for k in range(shape[0])]
    else:
        boxes = [(vox(tuple(0 for _ in shape)), vox(tuple(s - 1 for s in shape)))]
    need = needed_blocks(T, boxes, is2d)
    touched = {}
    file_len = os.path.getsize(path)
    data_hi = 8192 + (T.pad[0] * T.pad[1] * (T.pad[2] if not is2d else 1) * rate) / 8
    for pos, n, got in log:
        if pos < 8192 or pos + n > data_hi:
            return dict(reproduced=True, detail='%s read (%d, %d) outside the data section [8192, %d)' % (call, pos, n, data_hi),
                        extra=dict(outcome='outside-data'))
        for b in range((pos - 8192) // 4096, (pos + n - 1 - 8192) // 4096 + 1):
            touched[b] = touched.get(b, 0) + 1
    extra_blocks = sorted(set(touched) - need)
    if extra_blocks:
        return dict(reproduced=True, detail='%s fetched bytes of %d disk blocks that hold no requested sample (e.g. block %d); needed %d blocks, touched %d' % (
            call, len(extra_blocks), extra_blocks[0], len(need), len(touched)), extra=dict(outcome='extra-blocks'))
    ivs = sorted((pos, pos + n) for pos, n, got in log)
    for (a1, b1), (a2, b2) in zip(ivs, ivs[1:]):
        if a2 < b1:
            return dict(reproduced=True, detail='%s fetched bytes [%d, %d) twice' % (call, a2, min(b1, b2)), extra=dict(outcome='double-read'))
    return dict(reproduced=False, detail='%s: %d reads, all inside the %d needed blocks, pairwise disjoint' % (call, len(log), len(need)))


@register('io_header')
def replay_io_header(req, tmp):
    """gen_trace_header(i) on a regular file behind a counting file: one 4-byte read per stored array, at the spec offset."""
    import seismic_zfp.read as R
    m_ = req['model']
    bs, rate = tuple(req['bs']), req['rate']
    dims = (m_['n_il'], m_['n_xl'], m_['n_s'])
    stored = list(req['stored'])
    ntr = dims[0] * dims[1]
    rng = np.random.default_rng(1)
    headers = {f: rng.integers(-2 ** 31, 2 ** 31 - 1, size=ntr, dtype=np.int64).astype('<i4') for f in stored}
    path = os.path.join(tmp, 'h.sgz')
    specio.write_sgz_3d(path, specio.random_cube(dims, 0), bs, rate, version=req['version'], headers=headers)
    hdr, arrays = specio.footer_arrays(path)
    f = CountingFile(path)
    r = R.SgzReader(f)
    if req.get('pre') == 'tracefield':
        quiet(r.get_tracefield_values, stored[0])
    elif req.get('pre') == 'header':
        quiet(r.gen_trace_header, m_['w_index'])
    n0 = len(f.log)
    i = m_['index']
    h = quiet(r.gen_trace_header, i)
    log = f.log[n0:]
    f.close()
    base = 8192 + hdr['data_blocks'] * 4096
    stride = specio.pad_to(hdr['entry_len'], 512) if hdr['version'] > specio.V021 else hdr['entry_len']
    want = sorted((base + k * stride + 4 * i, 4) for k in range(len(stored)))
    got = sorted((pos, n) for pos, n, _ in log)
    call = 'gen_trace_header(%d)%s on %s, %d stored arrays' % (i, ' after ' + req['pre'] if req.get('pre') else '', dims, len(stored))
    if got != want:
        return dict(reproduced=True, detail='%s issued reads %s (%d bytes), expected the %d four-byte reads %s' % (
            call, got[:6], sum(n for _, n in got), len(want), want), extra=dict(outcome='header-io'))
    return dict(reproduced=False, detail='%s: exactly %d four-byte reads at the footer offsets' % (call, len(want)))
