"""Replay of C17 / C18 counterexamples: the real reader on a real spec-written file behind a fault-injecting file
(or blob) object / on a truncated copy; the result must be an exception or the true slice."""
import os
import numpy as np
from replay.run import register, NS, quiet, bits_equal
from replay import specio


class Injected(OSError):
    pass


class FaultyFile:
    def __init__(self, path, plan):
        self.f = open(path, 'rb')
        self.name = path
        self.plan = plan

    def seek(self, off, whence=0):
        return self.f.seek(off, whence)

    def read(self, n=-1):
        # POSIX semantics: the file position advances by the bytes actually delivered (a short read leaves it
        # behind the delivered prefix, a failed read where it was)
        pos = self.f.tell()
        b = self.f.read(n)
        try:
            out = self.plan.apply(b, n)
        except Exception:
            self.f.seek(pos)
            raise
        if len(out) != len(b):
            self.f.seek(pos + len(out))
        return out

    def tell(self):
        return self.f.tell()

    def close(self):
        self.f.close()


class _DL:
    def __init__(self, b):
        self.b = b

    def readall(self):
        return self.b


class FaultyBlob:
    def __init__(self, path, plan):
        self.path, self.plan = path, plan
        self.blob_name = path

    def download_blob(self, offset=None, length=None, **kw):
        with open(self.path, 'rb') as f:
            f.seek(offset or 0)
            b = f.read(length if length is not None else -1)
        return _DL(self.plan.apply(b, length))

    def close(self):
        pass


class Plan:
    def __init__(self, faults, active):
        self.faults = faults      # {index: (kind, length)}
        self.count = 0
        self.active = active
        self.fired = 0

    def apply(self, b, n):
        if not self.active:
            return b
        idx = self.count
        self.count += 1
        if idx in self.faults:
            kind, ln = self.faults[idx]
            self.fired += 1
            if kind == 'exc':
                raise Injected('injected I/O failure')
            if kind == 'empty':
                return b[:0]
            return b[:ln]
        return b


@register('fault')
def replay_fault(req, tmp):
    import seismic_zfp.read as R
    from replay.run import build_case, compare_result
    m_ = req['model']
    C = build_case(req, tmp)
    m, T, args, path, hdr = C.m, C.T, C.args, C.path, C.hdr
    if req.get('truncate'):
        cut = m_['cut']
        full = os.path.getsize(path)
        with open(path, 'r+b') as f:
            f.truncate(cut)
        what = 'file cut at byte %d of %d' % (cut, full)
        plan = Plan({}, False)
    else:
        faults = {m_['fault_k']: (req['fault'], m_.get('fault_len', 0))}
        if req.get('fault2'):
            faults[m_['fault_k2']] = (req['fault2'], m_.get('fault_len2', 0))
        plan = Plan(faults, bool(req.get('fault_in_open')))
        what = 'faults %s' % faults
    f = FaultyBlob(path, plan) if req.get('backend') == 'blob' else FaultyFile(path, plan)
    if req.get('truncate') and req.get('backend') != 'blob':
        # a cut file needs no injecting wrapper: the reader gets a real file object (with readinto, memory mapping, ... -
        # whatever the code under test may use)
        f.close()

        class _Real:
            def __init__(self, p):
                self.h = open(p, 'rb')

            def close(self):
                self.h.close()
        f = _Real(path)
    call = C.call + ', ' + what
    try:
        r = R.SgzReader(getattr(f, 'h', f), preload=bool(req.get('preload')))
    except Exception as e:
        return dict(reproduced=False, detail='open raised %s' % type(e).__name__)
    r._verif_stored = tuple(C.stored)
    plan.active = True
    if req.get('faulted_first_call'):
        a0 = [m_['f_' + n] for n in m.argn]
        try:
            quiet(m.call, r, a0)
            first = 'returned'
        except Exception as e:
            first = 'raised %s' % type(e).__name__
        plan.active = False
        call = '%s after a first call %s%s that %s under %s' % (C.call, req['method'], tuple(a0), first, what)
        try:
            res = quiet(m.call, r, args)
        except Exception as e:
            return dict(reproduced=True, detail='%s: the fault-free second call raised %s' % (call, type(e).__name__), extra=dict(outcome='second-call-raised'))
        finally:
            f.close()
        bad = compare_result(C, res, req)
        if bad is not None:
            return dict(reproduced=True, detail='%s: the fault-free second call returned wrong data: %s' % (call, bad[1]), extra=dict(outcome='wrong-data'))
        return dict(reproduced=False, detail='%s: second call correct' % call)
    try:
        res = quiet(m.call, r, args)
    except Exception as e:
        return dict(reproduced=False, detail='%s raised %s as it should' % (call, type(e).__name__))
    finally:
        f.close()
    if not req.get('truncate') and plan.fired == 0:
        return dict(reproduced=False, detail='%s: the fault position lies beyond the reads of the call' % call)
    bad = compare_result(C, res, req)
    if bad is not None:
        return dict(reproduced=True, detail='%s RETURNED instead of raising, and the result is wrong: %s' % (what, bad[1]), extra=dict(outcome='wrong-data'))
    return dict(reproduced=False, detail='%s returned the true data (the lost bytes were not needed)' % call)
