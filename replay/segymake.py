"""Synthetic SEG-Y sources for replay (real segyio): regular / irregular 3D and 2D, IBM or IEEE, extended textual
headers, arbitrary header content.  Returns what segyio itself reads back (the 'source' of every oracle)."""
import numpy as np
import segyio

TF = segyio.TraceField


def make_segy(path, kind, dims, fmt=1, ext=0, il0=10, il_step=1, xl0=20, xl_step=1, dt_us=4000, t0_ms=0, holes=(), extra=None,
              seed=0, sorting=2):
    """dims: (n_il, n_xl, n_s) or (n_tr, n_s) for 2D. holes: grid positions (i*n_xl+x) without a trace.
    extra(t, i, x) -> dict of additional trace-header values."""
    rng = np.random.default_rng(seed)
    spec = segyio.spec()
    spec.format = fmt
    spec.ext_headers = ext
    if kind == '2d':
        ntr, ns = dims
        spec.samples = np.arange(ns) * (dt_us / 1000.0) + t0_ms
        spec.tracecount = ntr
        pos = [(None, None)] * ntr
        a = (rng.standard_normal((ntr, ns)) * 100).astype(np.float32)
    else:
        n_il, n_xl, ns = dims
        spec.samples = np.arange(ns) * (dt_us / 1000.0) + t0_ms
        pos = [(i, x) for i in range(n_il) for x in range(n_xl) if (i * n_xl + x) not in set(holes)]
        if holes:
            spec.tracecount = len(pos)
        else:
            spec.sorting = sorting
            spec.ilines = il0 + il_step * np.arange(n_il)
            spec.xlines = xl0 + xl_step * np.arange(n_xl)
        a = (rng.standard_normal((n_il, n_xl, ns)) * 100).astype(np.float32)
    with segyio.create(path, spec) as f:
        for t, (i, x) in enumerate(pos):
            h = {TF.TRACE_SAMPLE_COUNT: dims[-1], TF.TRACE_SAMPLE_INTERVAL: dt_us, TF.DelayRecordingTime: t0_ms}
            if kind != '2d':
                h[TF.INLINE_3D] = int(il0 + il_step * i)
                h[TF.CROSSLINE_3D] = int(xl0 + xl_step * x)
            if extra:
                h.update(extra(t, i, x))
            f.header[t] = h
            f.trace[t] = a[t] if kind == '2d' else a[i, x]
        f.bin.update({segyio.BinField.Samples: dims[-1], segyio.BinField.Interval: dt_us, segyio.BinField.Format: fmt,
                      segyio.BinField.ExtendedHeaders: ext})
        for k in range(ext):
            f.text[k + 1] = ('extended textual header %d' % k).ljust(3200).encode('ascii')
    # the source as segyio returns it
    with segyio.open(path, strict=False) as f:
        traces = np.stack([np.asarray(f.trace[t]).copy() for t in range(f.tracecount)])
        headers = [dict(f.header[t]) for t in range(f.tracecount)]
    return traces, headers, pos
