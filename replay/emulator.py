"""Replay of C13 counterexamples: the expression is evaluated on real segyio (synthetic SEG-Y) and on seismic_zfp.open of
the SGZ converted from it; structure (kind, length, which lines / ordinals, order) is compared."""
import os
import numpy as np
import segyio
from replay.run import register, quiet
from replay.segymake import make_segy
from replay.writers import pin_version


def ident(arr, table):
    """Which key of table (key -> array) equals arr bitwise."""
    a = np.asarray(arr)
    for k, v in table.items():
        v = np.asarray(v)
        if v.shape == a.shape and np.array_equal(v, a):
            return k
    return None


@register('emulator')
def replay_emulator(req, tmp):
    it, m_ = req['item'], req['model']
    il0, ils, n_il, xl0, xls, n_xl = it['ax']
    dims = (n_il, n_xl, 6)
    sgy, sgz = os.path.join(tmp, 'in.sgy'), os.path.join(tmp, 'out.sgz')
    make_segy(sgy, 'regular', dims, fmt=5, il0=il0, il_step=ils, xl0=xl0, xl_step=xls)
    pin_version('0.2.5')
    from seismic_zfp.conversion import SegyConverter
    import seismic_zfp
    with SegyConverter(sgy) as c:
        quiet(c.run, sgz, bits_per_voxel=16)
    kind = it['kind']
    with segyio.open(sgy) as f, seismic_zfp.open(sgz) as z:
        def keys_of(which):
            return [int(k) for k in (f.ilines if which == 'iline' else f.xlines)]

        def run(fn):
            try:
                r = fn()
                if not isinstance(r, (np.ndarray, dict)) and not isinstance(r, segyio.field.Field):
                    # segyio's generators reuse one buffer: copy every item as it is produced
                    r = [dict(x) if isinstance(x, segyio.field.Field) else (np.array(x, copy=True) if isinstance(x, np.ndarray) else x) for x in r]
                return ('ok', r)
            except (IndexError, KeyError) as e:
                return ('lookup-error', type(e).__name__)
            except Exception as e:
                return ('error', '%s: %s' % (type(e).__name__, str(e)[:60]))
        if kind in ('line-scalar', 'line-slice'):
            which = it['which']
            fa, za = getattr(f, which), getattr(z, which)
            keys = keys_of(which)
            if kind == 'line-scalar':
                sub = m_['line_no']
            else:
                inc = keys[1] - keys[0]
                pres = it['pres']
                sub = slice(keys[m_['start_idx']] if pres[0] else None, keys[m_['stop_idx']] if pres[1] else None,
                            m_['step_mult'] * inc if pres[2] else None)
            expr = '%s[%s]' % (which, sub)
            a, b = run(lambda: fa[sub]), run(lambda: za[sub])
            ftab = {k: np.asarray(fa[k]) for k in keys}
            ztab = {k: np.asarray(za[k]) for k in keys}
            if 'iteration' in req.get('obligation', ''):
                expr = 'list(%s)' % which
                a, b = run(lambda: list(fa)), run(lambda: list(za))
        elif kind == 'ordinal':
            which = it['which']
            fa, za = getattr(f, which), getattr(z, which)
            n = len(fa)
            if m_.get('mode', 0) == 0:
                sub = m_['ordinal']
            else:
                sub = slice(m_['a'] if m_.get('has_a') else None, m_['b'] if m_.get('has_b') else None, m_['c'] if m_.get('has_c') else None)
            expr = '%s[%s]' % (which, sub)
            a, b = run(lambda: fa[sub]), run(lambda: za[sub])
            if which == 'header':
                ftab = {k: dict(fa[k]) for k in range(n)}
                ztab = {k: {kk: int(vv) for kk, vv in za[k].items()} for k in range(n)}
            else:
                ftab = {k: np.asarray(fa[k]) for k in range(n)}
                ztab = {k: np.asarray(za[k]) for k in range(n)}
        else:
            vol = np.asarray(z.read_volume())
            axes = [[int(v) for v in z.ilines], [int(v) for v in z.xlines], [int(v) for v in z.zslices]]
            subs, idx = [], []
            for d, keys in enumerate(axes):
                inc = keys[1] - keys[0]
                pa, pb, pc = m_['has%d_a' % d], m_['has%d_b' % d], m_['has%d_c' % d]
                ja, jb, k = m_['a%d' % d], m_['b%d' % d], m_['k%d' % d]
                subs.append(slice(keys[ja] if pa else None, (keys[jb] if jb < len(keys) else keys[-1] + inc) if pb else None, k * inc if pc else None))
                idx.append(slice(ja if pa else 0, jb if pb else len(keys), k if pc else 1))
            expr = 'subvolume[%s]' % (subs,)
            b = run(lambda: np.asarray(z.subvolume[tuple(subs)]))
            want = vol[tuple(idx)]
            if b[0] != 'ok':
                return dict(reproduced=True, detail='%s raised %s; numpy slicing of the volume gives shape %s' % (expr, b[1], want.shape), extra=dict(outcome='raised'))
            if b[1].shape != want.shape or not np.array_equal(b[1], want):
                return dict(reproduced=True, detail='%s has shape %s, numpy slicing of the decoded volume gives %s (or values differ)' % (expr, b[1].shape, want.shape),
                            extra=dict(outcome='subvolume'))
            return dict(reproduced=False, detail='%s equals numpy slicing of the volume' % expr)

        def describe(res, tab, hdr=False):
            if res[0] != 'ok':
                return res
            r = res[1]
            if isinstance(r, list):
                if hdr:
                    return ('list', [ident_h(x, tab) for x in r])
                return ('list', [ident(x, tab) for x in r])
            if hdr:
                return ('item', ident_h(r, tab))
            return ('item', ident(r, tab))

        def ident_h(h, tab):
            d = {int(k): int(v) for k, v in dict(h).items()}
            for k, v in tab.items():
                if {int(a_): int(b_) for a_, b_ in v.items()} == d:
                    return k
            return None
        hdr = kind == 'ordinal' and it['which'] == 'header'
        da, db = describe(a, ftab, hdr), describe(b, ztab, hdr)
        if da[0] in ('lookup-error',) and db[0] in ('lookup-error',):
            return dict(reproduced=False, detail='%s rejected by both' % expr)
        if da != db:
            return dict(reproduced=True, detail='%s: segyio gives %s, the emulator gives %s' % (expr, str(da)[:120], str(db)[:120]), extra=dict(outcome='structure'))
        return dict(reproduced=False, detail='%s: same structure on both (%s)' % (expr, str(da)[:80]))
