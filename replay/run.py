"""Concrete replay of solver counterexamples against the REAL code (no stubs): run as a subprocess
    /venv/bin/python -m replay.run <request.json>   -> prints one JSON line {reproduced, detail, extra}
so that the repo's modules are imported unshadowed."""
import os
import sys
import io
import json
import shutil
import tempfile
import contextlib
import warnings
import traceback

HERE = os.path.dirname(os.path.abspath(__file__))
ROOT = os.path.dirname(HERE)
sys.path.insert(0, ROOT)
sys.path.insert(1, os.environ.get('VERIF_REPO', '/repo'))
sys.path.append(os.path.join(ROOT, '.deps'))
warnings.filterwarnings('ignore')

import numpy as np  # noqa: E402
from replay import specio  # noqa: E402


class NS:
    pass


def quiet(f, *a, **k):
    with contextlib.redirect_stdout(io.StringIO()), contextlib.redirect_stderr(io.StringIO()):
        return f(*a, **k)


def bits_equal(a, b):
    a = np.ascontiguousarray(a, dtype=np.float32)
    b = np.ascontiguousarray(b, dtype=np.float32)
    return a.shape == b.shape and np.array_equal(a.view(np.uint32), b.view(np.uint32))


def build_case(req, tmp):
    """Write the concrete spec-conforming file of a reader-side counterexample. Returns a namespace with
    path, T (dims, layout, ...), m (method descriptor), args, headers (stored arrays), hdr, vol (spec decode)."""
    from harness import readers  # pure-python method table (no engine use with ints)
    m_ = req['model']
    bs, rate = tuple(req['bs']), req['rate']
    is2d = bs[0] == 1
    seed = req.get('seed', 0)
    C = NS()
    C.path = os.path.join(tmp, 'r.sgz')
    T = NS()
    T.bs, T.rate = bs, rate
    version = m_.get('version', req.get('version') or specio.enc_version(0, 2, 5))
    stored = sorted(req.get('stored') or [])
    T.stored = stored
    rng = np.random.default_rng(seed + 1)
    if is2d:
        ntr, ns = m_['n_tr'], m_['n_s']
        cube = specio.random_cube((ntr, ns), seed)
        headers = {f: rng.integers(-2 ** 31, 2 ** 31 - 1, size=ntr, dtype=np.int64).astype('<i4') for f in stored}
        specio.write_sgz_2d(C.path, cube, bs, rate, version=version, headers=headers)
        T.dims = (ntr, ns)
        T.pad = (specio.pad_to(ntr, bs[1]), specio.pad_to(ns, bs[2]))
        T.n_traces = ntr
        m = readers.METHODS_2D[req['method']]
    else:
        dims = (m_['n_il'], m_['n_xl'], m_['n_s'])
        cube = specio.random_cube(dims, seed)
        T.il0, T.xl0 = m_.get('il0', req.get('il0', 1)), m_.get('xl0', req.get('xl0', 1))
        T.il_step, T.xl_step = req.get('il_step', 1), req.get('xl_step', 1)
        headers = {f: rng.integers(-2 ** 31, 2 ** 31 - 1, size=dims[0] * dims[1], dtype=np.int64).astype('<i4') for f in stored}
        tracecount = None
        if req.get('holes'):
            hs = [m_['hole%d' % j] for j in range(req['holes'])]
            n_grid = dims[0] * dims[1]
            T.present = [g for g in range(n_grid) if g not in hs]
            headers[189] = np.array([0 if g in hs else 10 + 2 * (g // dims[1]) for g in range(n_grid)], dtype='<i4')
            headers[193] = np.array([0 if g in hs else 20 + 3 * (g % dims[1]) for g in range(n_grid)], dtype='<i4')
            tracecount = len(T.present)
        specio.write_sgz_3d(C.path, cube, bs, rate, il0=T.il0, xl0=T.xl0, il_step=T.il_step, xl_step=T.xl_step, version=version,
                            headers=headers, tracecount=tracecount)
        T.dims = dims
        T.pad = tuple(specio.pad_to(n, b) for n, b in zip(dims, bs))
        T.n_traces = dims[0] * dims[1]
        m = readers.METHODS[req['method']]
    C.hdr, C.vol = specio.decode_sgz(C.path)
    C.T, C.m, C.headers, C.stored, C.is2d = T, m, headers, stored, is2d
    C.args = [m_[n] for n in m.argn]
    C.call = '%s(%s) on %s cube, blockshape %s, rate %s' % (req['method'], ', '.join('%s=%s' % (n, v) for n, v in zip(m.argn, C.args)),
                                                            T.dims, bs, rate)
    return C


def compare_result(C, res, req):
    """Compare what the real call returned with the independent oracle. -> None if equal, else (outcome, detail)."""
    m, T, args, call = C.m, C.T, C.args, C.call
    inr = bool(m.inr(T, args))
    if m.kind == 'refuse':
        return ('returned-2d', '%s returned on a 2D file' % call)
    if m.kind == 'header':
        import segyio
        headers, stored = C.headers, C.stored
        if m.argn:
            ntr = len(T.present) if hasattr(T, 'present') else T.n_traces
            k = args[0] + ntr if args[0] < 0 else args[0]
            if 0 <= k < ntr and hasattr(T, 'present'):
                k = T.present[k]
            elif not 0 <= k < ntr:
                k = -1
            if not 0 <= k < T.n_traces:
                return ('returned-nothing-denoted', '%s returned a header although the file has only %d traces (stored fields read back as %s)' % (
                    call, T.n_traces, {f: int(res[segyio.tracefield.TraceField(f)]) for f in stored} if isinstance(res, dict) else type(res).__name__))
        if isinstance(res, dict):
            bad = {f: (int(res[segyio.tracefield.TraceField(f)]), int(headers[f][k])) for f in stored
                   if int(res[segyio.tracefield.TraceField(f)]) != int(headers[f][k])}
            bad.update({f: (int(res[segyio.tracefield.TraceField(f)]), 0) for f in specio.TRACE_FIELDS
                        if f not in stored and int(res[segyio.tracefield.TraceField(f)]) != 0})
            if bad:
                return ('header-values', '%s: fields differ from the stored arrays (got, stored): %s' % (call, dict(list(bad.items())[:4])))
            return None
        pos = int(req['method'].split('_')[3])
        exp = headers[stored[pos]].reshape(T.dims[:2]) if not C.is2d else headers[stored[pos]]
        if np.asarray(res).shape != exp.shape or not np.array_equal(np.asarray(res), exp):
            return ('header-values', '%s differs from the stored array of field %d' % (call, stored[pos]))
        return None
    d = m.denote(T, args)
    res = np.asarray(res)
    if d is None:
        return ('returned-nothing-denoted', '%s returned an array of shape %s although the arguments denote no real item' % (call, res.shape))
    shape, vox = d
    exp = np.zeros(shape, dtype=np.float32)
    for q in np.ndindex(*shape):
        v = vox(q)
        exp[q] = C.vol[tuple(v)]
        assert all(0 <= c < n for c, n in zip(v, T.dims)), ('oracle addressed a padding voxel', v, T.dims)
    exp_s, res_s = np.squeeze(exp), np.squeeze(res)
    if exp_s.shape != res_s.shape:
        return ('shape', '%s returned shape %s, the denoted slice has shape %s' % (call, res.shape, exp.shape))
    if not bits_equal(exp_s, res_s.astype(np.float32)):
        bad = np.argwhere(exp_s.view(np.uint32) != np.ascontiguousarray(res_s, dtype=np.float32).view(np.uint32))
        return ('values', '%s differs from the spec-decoded slice at %d of %d elements, first at %s' % (call, len(bad), exp_s.size, bad[0].tolist()))
    return None


def replay_reader(req, tmp):
    """Reader method on a spec-written file vs the spec decoder (independent oracle)."""
    import seismic_zfp.read as R
    from seismic_zfp.utils import WrongDimensionalityError
    C = build_case(req, tmp)
    m, T, args, call = C.m, C.T, C.args, C.call
    inr = bool(m.inr(T, args))
    r = R.SgzReader(C.path, chunk_cache_size=req.get('chunk_cache_size'))
    r._verif_stored = tuple(C.stored)
    try:
        try:
            res = quiet(m.call, r, args)
            exc = None
        except Exception as e:
            res, exc = None, e
    finally:
        r.close()
    if exc is not None:
        ok_type = isinstance(exc, (IndexError, WrongDimensionalityError))
        if inr:
            return dict(reproduced=True, detail='%s raised %s: %s although arguments are in range' % (call, type(exc).__name__, str(exc)[:80]),
                        extra=dict(outcome='raised-in-range', exc=type(exc).__name__))
        if not ok_type:
            return dict(reproduced=True, detail='%s raised %s (not IndexError): %s' % (call, type(exc).__name__, str(exc)[:80]),
                        extra=dict(outcome='wrong-exception', exc=type(exc).__name__))
        return dict(reproduced=False, detail='%s raised %s as it should' % (call, type(exc).__name__))
    bad = compare_result(C, res, req)
    if bad is not None:
        return dict(reproduced=True, detail=bad[1], extra=dict(outcome=bad[0]))
    return dict(reproduced=False, detail='%s equals the independent oracle' % call)


HANDLERS = {'reader': replay_reader}


def register(kind):
    def deco(f):
        HANDLERS[kind] = f
        return f
    return deco


def main():
    sys.modules.setdefault('replay.run', sys.modules['__main__'])    # handler modules import `register` from here
    with open(sys.argv[1]) as f:
        req = json.load(f)
    # optional extra handler modules
    for modname in req.get('handlers', []):
        __import__(modname)
    tmp = tempfile.mkdtemp(prefix='verif-replay-')
    try:
        out = HANDLERS[req['kind']](req, tmp)
    except Exception as e:
        out = dict(reproduced=False, detail='replay harness error: %s: %s' % (type(e).__name__, e), tb=traceback.format_exc()[-1500:],
                   harness_error=True)
    finally:
        shutil.rmtree(tmp, ignore_errors=True)
    # (a handler may leave a blocked thread inside redirect_stdout: write to the real stdout)
    sys.__stdout__.write('REPLAY-RESULT ' + json.dumps(out, default=str) + '\n')
    sys.__stdout__.flush()
    os._exit(0)


if __name__ == '__main__':
    main()
