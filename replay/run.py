"""Concrete replay of solver counterexamples against the REAL code (no stubs): run as a subprocess
    /venv/bin/python -m replay.run <request.json>   -> prints one JSON line {reproduced, detail, extra}
so that the repo's modules are imported unshadowed."""
import os
import sys
import io
import json
import shutil
import tempfile
import contextlib
import warnings
import traceback

HERE = os.path.dirname(os.path.abspath(__file__))
ROOT = os.path.dirname(HERE)
sys.path.insert(0, ROOT)
sys.path.insert(1, '/repo')
sys.path.append(os.path.join(ROOT, '.deps'))
warnings.filterwarnings('ignore')

import numpy as np  # noqa: E402
from replay import specio  # noqa: E402


class NS:
    pass


def quiet(f, *a, **k):
    with contextlib.redirect_stdout(io.StringIO()), contextlib.redirect_stderr(io.StringIO()):
        return f(*a, **k)


def bits_equal(a, b):
    a = np.ascontiguousarray(a, dtype=np.float32)
    b = np.ascontiguousarray(b, dtype=np.float32)
    return a.shape == b.shape and np.array_equal(a.view(np.uint32), b.view(np.uint32))


def replay_reader(req, tmp):
    """Reader method on a spec-written file vs the spec decoder (independent oracle)."""
    from harness import readers  # pure-python method table (no engine use with ints)
    import seismic_zfp.read as R
    from seismic_zfp.utils import WrongDimensionalityError
    m_ = req['model']
    bs, rate = tuple(req['bs']), req['rate']
    is2d = bs[0] == 1
    seed = req.get('seed', 0)
    path = os.path.join(tmp, 'r.sgz')
    T = NS()
    T.bs, T.rate = bs, rate
    version = m_.get('version', req.get('version', specio.enc_version(0, 2, 5)))
    if is2d:
        ntr, ns = m_['n_tr'], m_['n_s']
        cube = specio.random_cube((ntr, ns), seed)
        specio.write_sgz_2d(path, cube, bs, rate, version=version)
        T.dims = (ntr, ns)
        m = readers.METHODS_2D[req['method']]
    else:
        dims = (m_['n_il'], m_['n_xl'], m_['n_s'])
        cube = specio.random_cube(dims, seed)
        T.il0, T.xl0 = m_.get('il0', req.get('il0', 1)), m_.get('xl0', req.get('xl0', 1))
        T.il_step, T.xl_step = req.get('il_step', 1), req.get('xl_step', 1)
        specio.write_sgz_3d(path, cube, bs, rate, il0=T.il0, xl0=T.xl0, il_step=T.il_step, xl_step=T.xl_step, version=version)
        T.dims = dims
        m = readers.METHODS[req['method']]
    hdr, vol = specio.decode_sgz(path)
    args = [m_[n] for n in m.argn]
    inr = bool(m.inr(T, args))
    d = m.denote(T, args)
    r = R.SgzReader(path, chunk_cache_size=req.get('chunk_cache_size'))
    try:
        try:
            res = quiet(m.call, r, args)
            exc = None
        except (IndexError, WrongDimensionalityError) as e:
            res, exc = None, e
        except Exception as e:
            res, exc = None, e
    finally:
        r.close()
    call = '%s(%s) on %s cube, blockshape %s, rate %s' % (req['method'], ', '.join('%s=%s' % (n, v) for n, v in zip(m.argn, args)),
                                                          T.dims, bs, rate)
    if exc is not None:
        ok_type = isinstance(exc, (IndexError, WrongDimensionalityError))
        if inr:
            return dict(reproduced=True, detail='%s raised %s: %s although arguments are in range' % (call, type(exc).__name__, str(exc)[:80]),
                        extra=dict(outcome='raised-in-range', exc=type(exc).__name__))
        if not ok_type:
            return dict(reproduced=True, detail='%s raised %s (not IndexError): %s' % (call, type(exc).__name__, str(exc)[:80]),
                        extra=dict(outcome='wrong-exception', exc=type(exc).__name__))
        return dict(reproduced=False, detail='%s raised %s as it should' % (call, type(exc).__name__))
    if m.kind == 'refuse':
        return dict(reproduced=True, detail='%s returned on a 2D file' % call, extra=dict(outcome='returned-2d'))
    res = np.asarray(res)
    if d is None:
        return dict(reproduced=True, detail='%s returned an array of shape %s although the arguments denote no real item' % (call, res.shape),
                    extra=dict(outcome='returned-nothing-denoted'))
    shape, vox = d
    exp = np.zeros(shape, dtype=np.float32)
    for q in np.ndindex(*shape):
        v = vox(q)
        exp[q] = vol[tuple(v)]
        real = all(0 <= c < n for c, n in zip(v, T.dims))
        assert real, ('oracle addressed a padding voxel', v, T.dims)
    exp_s, res_s = np.squeeze(exp), np.squeeze(res)
    if exp_s.shape != res_s.shape:
        return dict(reproduced=True, detail='%s returned shape %s, the denoted slice has shape %s' % (call, res.shape, exp.shape),
                    extra=dict(outcome='shape'))
    if not bits_equal(exp_s, res_s.astype(np.float32)):
        bad = np.argwhere(exp_s.view(np.uint32) != np.ascontiguousarray(res_s, dtype=np.float32).view(np.uint32))
        return dict(reproduced=True, detail='%s differs from the spec-decoded slice at %d of %d elements, first at %s' % (
            call, len(bad), exp_s.size, bad[0].tolist()), extra=dict(outcome='values'))
    return dict(reproduced=False, detail='%s equals the spec-decoded slice (shape %s)' % (call, res_s.shape))


HANDLERS = {'reader': replay_reader}


def register(kind):
    def deco(f):
        HANDLERS[kind] = f
        return f
    return deco


def main():
    sys.modules.setdefault('replay.run', sys.modules['__main__'])    # handler modules import `register` from here
    with open(sys.argv[1]) as f:
        req = json.load(f)
    # optional extra handler modules
    for modname in req.get('handlers', []):
        __import__(modname)
    tmp = tempfile.mkdtemp(prefix='verif-replay-')
    try:
        out = HANDLERS[req['kind']](req, tmp)
    except Exception as e:
        out = dict(reproduced=False, detail='replay harness error: %s: %s' % (type(e).__name__, e), tb=traceback.format_exc()[-1500:],
                   harness_error=True)
    finally:
        shutil.rmtree(tmp, ignore_errors=True)
    print('REPLAY-RESULT ' + json.dumps(out, default=str))


if __name__ == '__main__':
    main()
