"""Replay of writer-side counterexamples (C01, C03, C04, C05, C20 ...): the real converters write a real file from a
concrete source of the model's dimensions; independent oracles: real zfpy on the edge-extended source (C01), struct-level
parsing against the spec tables (C03), hashlib (C20), the source headers / axes (C04, C05)."""
import os
import hashlib
import struct
import numpy as np
from replay.run import register, NS, quiet, bits_equal
from replay import specio


def pin_version(v):
    """The distribution metadata is environment, not code: pin it to the version string of the scenario."""
    import pkg_resources

    class D:
        version = v
    pkg_resources.get_distribution = lambda name: D()


def zfp_image(cube, rate):
    """ZFP fixed-rate image of the cube edge-extended to multiples of 4 (independent of any blockshape)."""
    sp = tuple(specio.pad_to(n, 4) for n in cube.shape)
    padded = specio.edge_pad(cube, sp)
    code = specio.zfp_block(padded, rate)
    dec = specio.zfp_decode(code, sp, rate)
    return np.asarray(dec)[tuple(slice(0, n) for n in cube.shape)]


def expected_header(dims, bs, rate, tracecount, n_arrays, is2d=False):
    if is2d:
        pad = (specio.pad_to(tracecount, bs[1]), specio.pad_to(dims[-1], bs[2]))
        vox = pad[0] * pad[1]
        grid = tracecount
    else:
        pad = tuple(specio.pad_to(n, b) for n, b in zip(dims, bs))
        vox = pad[0] * pad[1] * pad[2]
        grid = dims[0] * dims[1]
    data_bytes = int(vox * rate) // 8
    return dict(data_blocks=data_bytes // 4096, entry_len=4 * grid, stride=specio.pad_to(4 * grid, 512),
                total=8192 + data_bytes + specio.pad_to(4 * grid, 512) * n_arrays, data_bytes=data_bytes)


def check_container_file(path, dims, bs, rate, tracecount, stored, is2d=False, axes=None):
    """-> list of conformance problems of the real file vs the specification."""
    with open(path, 'rb') as f:
        data = f.read()
    h = specio.parse_header(data[:8192])
    e = expected_header(dims, bs, rate, tracecount, len(stored), is2d)
    bad = []

    def chk(name, got, want):
        if got != want:
            bad.append('%s=%s (true %s)' % (name, got, want))
    chk('n_header_blocks', h['n_header_blocks'], 2)
    chk('n_samples', h['n_s'], dims[-1])
    if not is2d:
        chk('n_xlines', h['n_xl'], dims[1])
        chk('n_ilines', h['n_il'], dims[0])
    chk('rate_code', h['rate_code'], specio.rate_code(rate))
    chk('blockshape', tuple(h['bs']), tuple(bs))
    chk('data_blocks', h['data_blocks'], e['data_blocks'])
    chk('entry_len', h['entry_len'], e['entry_len'])
    chk('n_arrays', h['n_arrays'], len(stored))
    chk('tracecount', h['tracecount'], tracecount)
    chk('file length', len(data), e['total'])
    if not h['version'] > specio.V021:
        bad.append('recorded version %d selects the pre-0.2.2 conventions although the file is written with padded footers / trace count' % h['version'])
    if axes:
        for k, v in axes.items():
            chk(k, h[k], v)
    tab_stored = [r[0] for r in h['rows'] if r[1] == 0 and r[2] == r[0]]
    chk('table stored fields', sorted(tab_stored), sorted(stored))
    return bad, h, e


@register('writer')
def replay_writer(req, tmp):
    route = req['route']
    if route == 'numpy':
        return replay_numpy(req, tmp)
    from replay import writers_segy
    return writers_segy.replay_segy(req, tmp)


def replay_numpy(req, tmp):
    import segyio
    m_ = req['model']
    opts = req.get('opts') or {}
    pin_version(opts.get('version', '0.2.5'))
    from seismic_zfp.conversion import NumpyConverter
    import seismic_zfp.read as R
    bs, rate = tuple(req['bs']), req['rate']
    dims = (m_['n_il'], m_['n_xl'], m_['n_s'])
    cube = specio.random_cube(dims, req.get('seed', 0))
    rng = np.random.default_rng(5)
    kw = {}
    hdr_in = {}
    for f, dt in opts.get('headers', ()):
        npdt = {'i4': np.int32, 'i8': np.int64, 'i2': np.int16, '>i4': np.dtype('>i4')}[dt]
        lim = 2 ** 15 if dt == 'i2' else 2 ** 31
        hdr_in[f] = rng.integers(-lim, lim - 1, size=dims[:2]).astype(npdt)
    if hdr_in:
        kw['trace_headers'] = {int(f): a for f, a in hdr_in.items()}      # segyio.TraceField.X attributes are plain ints
    il0, xl0 = m_.get('il0', 0), m_.get('xl0', 0)
    il_step, xl_step = opts.get('il_step', 1), opts.get('xl_step', 1)
    if opts.get('axes') == 'sym':
        kw['ilines'] = il0 + il_step * np.arange(dims[0])
        kw['xlines'] = xl0 + xl_step * np.arange(dims[1])
    z0, dz = m_.get('z0', 0), m_.get('dz_ms', 4)
    if opts.get('samples') == 'sym':
        kw['samples'] = z0 + dz * np.arange(dims[2])
    if opts.get('samples') == 'fp':
        kw['samples'] = np.arange(dims[2]) * (m_['dt_us'] / 1000.0) + m_['t0_ms']
    path = os.path.join(tmp, 'out.sgz')
    what = 'NumpyConverter(%s cube).run(bits_per_voxel=%s, blockshape=%s)' % (dims, opts.get('bpv_in', rate), tuple(opts.get('bs_in', bs)))
    if req.get('prop') == 'C18':
        def convert():
            with NumpyConverter(cube, **kw) as conv:
                quiet(conv.run, path, bits_per_voxel=opts.get('bpv_in', rate), blockshape=tuple(opts.get('bs_in', bs)))
        return crash_replay(req, convert, path, tmp, dims, False, what)
    try:
        with NumpyConverter(cube, **kw) as conv:
            if opts.get('runs') == 2:
                quiet(conv.run, os.path.join(tmp, 'first.sgz'), bits_per_voxel=4, blockshape=(4, 4, -1))
            quiet(conv.run, path, bits_per_voxel=opts.get('bpv_in', rate), blockshape=tuple(opts.get('bs_in', bs)))
    except Exception as e:
        return dict(reproduced=True, detail='%s raised %s: %s' % (what, type(e).__name__, str(e)[:100]), extra=dict(outcome='writer-raised'))
    prop = req.get('prop')
    stored = sorted(set([189, 193] + list(hdr_in)))
    if prop == 'C03':
        bad, h, e = check_container_file(path, dims, bs, rate, dims[0] * dims[1], stored,
                                         axes=dict(il0=il0, xl0=xl0, il_step=il_step, xl_step=xl_step))
        # footer content
        try:
            _, arrays = specio.footer_arrays(path)
            exp = dict(hdr_in)
            exp.setdefault(189, np.broadcast_to((il0 + il_step * np.arange(dims[0]))[:, None], dims[:2]))
            exp.setdefault(193, np.broadcast_to(xl0 + xl_step * np.arange(dims[1]), dims[:2]))
            for f in stored:
                want = np.asarray(exp[f]).astype(np.int64).astype(np.int32).reshape(-1)
                if f not in arrays or arrays[f].size != want.size or not np.array_equal(arrays[f], want):
                    bad.append('footer array of field %d differs from the header values given' % f)
        except Exception as ex:
            bad.append('footer not readable per spec: %s' % type(ex).__name__)
        if bad:
            return dict(reproduced=True, detail='%s wrote a non-conforming file: %s' % (what, '; '.join(bad[:5])), extra=dict(outcome='container'))
        return dict(reproduced=False, detail='%s: file conforms' % what)
    if prop == 'C20':
        with open(path, 'rb') as f:
            f.seek(960)
            got = f.read(20)
        want = hashlib.sha1(cube.tobytes()).digest()
        if got != want:
            return dict(reproduced=True, detail='%s: stored hash %s != SHA-1 of the source samples %s' % (what, got.hex()[:16], want.hex()[:16]),
                        extra=dict(outcome='hash'))
        return dict(reproduced=False, detail='%s: hash equals SHA-1 of the source' % what)
    r = R.SgzReader(path)
    try:
        if prop == 'C01':
            vol = quiet(r.read_volume)
            exp = zfp_image(cube, rate)
            if vol.shape != exp.shape:
                return dict(reproduced=True, detail='%s: read_volume shape %s != source shape %s' % (what, vol.shape, exp.shape), extra=dict(outcome='shape'))
            if not bits_equal(vol, exp):
                nbad = int(np.count_nonzero(np.ascontiguousarray(vol, dtype=np.float32).view(np.uint32) != np.ascontiguousarray(exp, dtype=np.float32).view(np.uint32)))
                first = np.argwhere(np.ascontiguousarray(vol, dtype=np.float32).view(np.uint32) != np.ascontiguousarray(exp, dtype=np.float32).view(np.uint32))[0].tolist()
                return dict(reproduced=True, detail='%s: volume read back differs bitwise from the ZFP image of the edge-extended source at %d of %d voxels (first %s)' % (
                    what, nbad, exp.size, first), extra=dict(outcome='values'))
            return dict(reproduced=False, detail='%s: read-back volume is bit-identical to the ZFP image of the edge-extended source' % what)
        if prop == 'C05':
            bad = []
            if not np.array_equal(r.ilines, il0 + il_step * np.arange(dims[0])):
                bad.append('ilines %s..' % r.ilines[:3])
            if not np.array_equal(r.xlines, xl0 + xl_step * np.arange(dims[1])):
                bad.append('xlines %s..' % r.xlines[:3])
            zs = z0 + dz * np.arange(dims[2])
            if opts.get('samples') == 'fp':
                zs = m_['t0_ms'] + (m_['dt_us'] / 1000.0) * np.arange(dims[2])
                import struct as _st
                with open(path, 'rb') as fh:
                    iv = _st.unpack_from('<i', fh.read(64), 28)[0]
                if iv != m_['dt_us']:
                    bad.append('stored sample interval %d us (source %d us)' % (iv, m_['dt_us']))
            if len(r.zslices) != dims[2] or not np.allclose(r.zslices, zs, rtol=0, atol=1e-6):
                bad.append('sample axis len %d first %s (true len %d first %s)' % (len(r.zslices), r.zslices[:3], dims[2], zs[:3]))
            if r.tracecount != dims[0] * dims[1] or not r.structured:
                bad.append('tracecount %s structured %s' % (r.tracecount, r.structured))
            if bad:
                return dict(reproduced=True, detail='%s: geometry read back differs: %s' % (what, '; '.join(bad)), extra=dict(outcome='axes'))
            return dict(reproduced=False, detail='%s: axes equal the source' % what)
        if prop == 'C04':
            t = m_.get('hdr_trace', 0)
            h = quiet(r.gen_trace_header, t)
            i, x = divmod(t, dims[1])
            bad = []
            for f in specio.TRACE_FIELDS:
                v = int(h[segyio.tracefield.TraceField(f)])
                if f in hdr_in:
                    want = int(hdr_in[f][i, x])
                elif f == 189:
                    want = il0 + il_step * i
                elif f == 193:
                    want = xl0 + xl_step * x
                else:
                    want = 0
                if v != want:
                    bad.append('field %d = %d (source %d)' % (f, v, want))
            if bad:
                return dict(reproduced=True, detail='%s: header of trace %d read back wrong: %s' % (what, t, '; '.join(bad[:4])), extra=dict(outcome='headers'))
            return dict(reproduced=False, detail='%s: header of trace %d equals the source' % (what, t))
    finally:
        r.close()
    return dict(reproduced=False, detail='no replayer for property %s' % prop)


# ------------------------------------------------------------------------------------------------ C18 crash prefixes
class RecordingFile:
    def __init__(self, f, log):
        self.f, self.log, self.name = f, log, f.name

    def write(self, b):
        self.log.append((self.f.tell(), bytes(b)))
        return self.f.write(b)

    def __getattr__(self, n):
        return getattr(self.f, n)

    def __enter__(self):
        return self

    def __exit__(self, *a):
        self.f.close()
        return False


def record_write_sequence(convert, out):
    """Run convert() with every handle opened on `out` for writing wrapped by a recorder -> [(pos, bytes)] in order."""
    import builtins
    from seismic_zfp import conversion as C
    log = []

    def ropen(name, mode='r', *a, **k):
        f = builtins.open(name, mode, *a, **k)
        if name == out and ('w' in mode or '+' in mode):
            return RecordingFile(f, log)
        return f
    C.open = ropen
    try:
        convert()
    finally:
        del C.open
    return log


def crash_replay(req, convert, out, tmp, dims, is2d, what):
    import seismic_zfp.read as R
    import segyio
    m_, o = req['model'], req.get('opts') or {}
    log = record_write_sequence(convert, out)
    p, cut = m_['crash_prefix'], m_.get('crash_cut', 0)
    if p > len(log):
        return dict(reproduced=False, detail='%s: the real write sequence has only %d writes' % (what, len(log)))
    buf = bytearray()
    for k, (pos, b) in enumerate(log[:p + 1]):
        if k == p:
            if p == len(log):
                break
            b = b[:cut]
        if pos > len(buf):
            buf += bytes(pos - len(buf))
        buf[pos:pos + len(b)] = b
    part = os.path.join(tmp, 'partial.sgz')
    with open(part, 'wb') as f:
        f.write(bytes(buf))
    call = o.get('call', 'header')
    ntr = dims[0] if is2d else dims[0] * dims[1]

    def run(path):
        r = R.SgzReader(path)
        try:
            if call == 'header':
                h = quiet(r.gen_trace_header, m_.get('trace', 0))
                return tuple(int(h[segyio.tracefield.TraceField(f)]) for f in specio.TRACE_FIELDS)
            if call == 'tracefield':
                g = np.asarray(quiet(r.get_tracefield_values, o.get('field', 189))).reshape(-1)
                return (g.size, int(g[m_.get('g', 0)]))
            if call == 'voxel':
                if is2d:
                    return np.asarray(quiet(r.read_subplane, m_['t'], m_['t'] + 1, m_['z'], m_['z'] + 1)).tobytes()
                return np.asarray(quiet(r.read_subvolume, m_['i'], m_['i'] + 1, m_['x'], m_['x'] + 1, m_['z'], m_['z'] + 1)).tobytes()
            if call == 'hash':
                return r.get_source_data_hash()
            return (r.n_samples, r.tracecount)
        finally:
            r.close()
    try:
        want = run(out)
    except Exception as e:
        want = ('raises', type(e).__name__)
    state = 'after %d of %d writes%s' % (p, len(log), ' + %d bytes of the next' % cut if cut else '')
    try:
        got = run(part)
    except Exception as e:
        return dict(reproduced=False, detail='%s: partial file (%s) refused: %s' % (what, state, type(e).__name__))
    if got != want:
        return dict(reproduced=True, detail='%s interrupted %s: %s on the partial file returns %s, on the complete file %s' % (
            what, state, call, str(got)[:80], str(want)[:80]), extra=dict(outcome='crash-' + call, writes=len(log), prefix=p))
    return dict(reproduced=False, detail='%s: partial file (%s) reads like the complete file' % (what, state))
