"""Replay of C10 (cropper) / C12 (re-blocker) counterexamples on real files: a spec-written source with random cube and
header arrays, the real SgzCropper / SgzConverter, the real reader and the independent spec decoder on the output."""
import os
import numpy as np
import segyio
from replay.run import register, NS, quiet, bits_equal
from replay import specio


def make_source(tmp, dims, bs, rate, o):
    path = os.path.join(tmp, 'src.sgz')
    cube = specio.random_cube(tuple(dims), 3)
    stored = sorted(o.get('stored', (73, 189, 193)))
    rng = np.random.default_rng(4)
    headers = {f: rng.integers(-2 ** 31, 2 ** 31 - 1, size=dims[0] * dims[1], dtype=np.int64).astype('<i4') for f in stored}
    tracecount = None
    holes = list(o.get('holes', ()))
    if holes:
        n_grid = dims[0] * dims[1]
        headers[189] = np.array([0 if g in holes else 10 + 2 * (g // dims[1]) for g in range(n_grid)], dtype='<i4')
        headers[193] = np.array([0 if g in holes else 20 + 3 * (g % dims[1]) for g in range(n_grid)], dtype='<i4')
        tracecount = n_grid - len(holes)
    specio.write_sgz_3d(path, cube, tuple(bs), rate, il0=o.get('il0', 100), xl0=o.get('xl0', 200), il_step=o.get('il_step', 1),
                        xl_step=o.get('xl_step', 1), version=o.get('version') or specio.enc_version(0, 2, 5), headers=headers, tracecount=tracecount)
    hdr, vol = specio.decode_sgz(path)
    return path, vol, headers, stored


def conformance(path, dims, bs, rate, stored, tracecount=None):
    from replay.writers import check_container_file
    bad, h, e = check_container_file(path, tuple(dims), tuple(bs), rate, dims[0] * dims[1] if tracecount is None else tracecount, stored)
    return [b for b in bad if not b.startswith('recorded version')], h


@register('crop')
def replay_crop(req, tmp):
    from seismic_zfp.cropping import SgzCropper
    import seismic_zfp.read as R
    o, m_ = req['opts'], req['model']
    bs, rate, dims = tuple(req['bs']), req['rate'], tuple(req['dims'])
    src, vol, headers, stored = make_source(tmp, dims, bs, rate, o)
    out = os.path.join(tmp, 'out.sgz')
    rngs = []
    for k, name in enumerate(('il', 'xl', 'z')):
        mode = (o.get('ranges') or ('sym', 'sym', 'sym'))[k]
        rngs.append(None if mode is None else (m_['%s_lo' % name], m_['%s_hi' % name]))
    valid = any(r is not None for r in rngs) and all(r is None or (0 <= r[0] < r[1] <= dims[k]) for k, r in enumerate(rngs))
    what = 'SgzCropper(%s cube, blockshape %s).write_cropped_file_by_indexes(%s, %s, %s)' % (dims, bs, *rngs)
    try:
        with SgzCropper(src) as c:
            if o.get('pre') == 'tracefield':
                quiet(c.get_tracefield_values, stored[-1])
            elif o.get('pre') == 'header':
                quiet(c.gen_trace_header, 0, load_all_headers=True)
            quiet(c.write_cropped_file_by_indexes, out, rngs[0], rngs[1], rngs[2])
    except IndexError:
        if valid:
            return dict(reproduced=True, detail='%s refused a valid request' % what, extra=dict(outcome='refused-valid'))
        if os.path.exists(out):
            return dict(reproduced=True, detail='%s raised IndexError but left an output file' % what, extra=dict(outcome='leftover'))
        return dict(reproduced=False, detail='%s refused as it should' % what)
    except Exception as e:
        if valid and o.get('may_refuse') and not os.path.exists(out):
            return dict(reproduced=False, detail='%s refused the layout (%s)' % (what, type(e).__name__))
        return dict(reproduced=True, detail='%s raised %s: %s%s' % (what, type(e).__name__, str(e)[:80], '' if valid else ' (invalid request: IndexError expected)'),
                    extra=dict(outcome='raised'))
    if not valid:
        return dict(reproduced=True, detail='%s produced a file for an invalid request' % what, extra=dict(outcome='accepted-invalid'))
    box = []
    for k, r in enumerate(rngs):
        box.append((0, dims[k]) if r is None else ((r[0] // bs[k]) * bs[k], min(dims[k], -(-r[1] // bs[k]) * bs[k])))
    nd = tuple(b[1] - b[0] for b in box)
    bad, h = conformance(out, nd, bs, rate, stored)
    il = o.get('il0', 100) + o.get('il_step', 1) * np.arange(box[0][0], box[0][1])
    xl = o.get('xl0', 200) + o.get('xl_step', 1) * np.arange(box[1][0], box[1][1])
    try:
        r = R.SgzReader(out)
        if not np.array_equal(np.asarray(r.ilines), il) or not np.array_equal(np.asarray(r.xlines), xl):
            bad.append('axes %s.. / %s.. (source sub-ranges %s.. / %s..)' % (np.asarray(r.ilines)[:3].tolist(), np.asarray(r.xlines)[:3].tolist(), il[:3].tolist(), xl[:3].tolist()))
        if r.tracecount != nd[0] * nd[1] or not r.structured:
            bad.append('tracecount %s structured %s (box has %d traces)' % (r.tracecount, r.structured, nd[0] * nd[1]))
        exp = vol[box[0][0]:box[0][1], box[1][0]:box[1][1], box[2][0]:box[2][1]]
        got = quiet(r.read_volume)
        if got.shape != exp.shape or not bits_equal(got, exp):
            bad.append('volume (shape %s) is not the source volume restricted to the box %s' % (got.shape, box))
        for t in sorted(set([0, nd[0] * nd[1] - 1, min(m_.get('trace', 0), nd[0] * nd[1] - 1)])):
            hd = quiet(r.gen_trace_header, t)
            st = (box[0][0] + t // nd[1]) * dims[1] + box[1][0] + t % nd[1]
            for f in stored:
                if int(hd[segyio.tracefield.TraceField(f)]) != int(headers[f][st]):
                    bad.append('header of trace %d field %d = %d (source trace %d has %d)' % (t, f, int(hd[segyio.tracefield.TraceField(f)]), st, int(headers[f][st])))
        r.close()
    except Exception as e:
        bad.append('reading the cropped file raised %s: %s' % (type(e).__name__, str(e)[:80]))
    if bad:
        return dict(reproduced=True, detail='%s: %s' % (what, '; '.join(bad[:5])), extra=dict(outcome='crop'))
    return dict(reproduced=False, detail='%s: cropped file equals the source restricted to %s' % (what, box))


@register('reblock')
def replay_reblock(req, tmp):
    from seismic_zfp.conversion import SgzConverter
    import seismic_zfp.read as R
    o = req['opts']
    dims = tuple(req['dims'])
    bs, rate = tuple(o.get('bs', (4, 4, 1024))), o.get('rate', 2)
    src, vol, headers, stored = make_source(tmp, dims, bs, rate, o)
    out = os.path.join(tmp, 'out.sgz')
    supported = rate == 2 and bs == (4, 4, 1024)
    what = 'SgzConverter(%s cube, blockshape %s, rate %s).convert_to_adv_sgz()' % (dims, bs, rate)
    try:
        with SgzConverter(src) as c:
            quiet(c.convert_to_adv_sgz, out)
    except Exception as e:
        if supported:
            return dict(reproduced=True, detail='%s raised %s: %s' % (what, type(e).__name__, str(e)[:80]), extra=dict(outcome='raised'))
        return dict(reproduced=False, detail='%s refused (%s)' % (what, type(e).__name__))
    if not supported:
        return dict(reproduced=True, detail='%s converted an unsupported input instead of refusing' % what, extra=dict(outcome='accepted'))
    holes = list(o.get('holes', ()))
    bad, h = conformance(out, dims, (64, 64, 4), 2, stored, tracecount=dims[0] * dims[1] - len(holes) if holes else None)
    try:
        _, out_arrays = specio.footer_arrays(out)
        for f in stored:
            if f not in out_arrays or out_arrays[f].size != headers[f].size or not np.array_equal(out_arrays[f], headers[f]):
                bad.append('footer array of field %d is not the source array (one value per grid position)' % f)
    except Exception as e:
        bad.append('footer unreadable per spec: %s' % type(e).__name__)
    with open(src, 'rb') as f1, open(out, 'rb') as f2:
        h1, h2 = f1.read(8192), f2.read(8192)
    if h1[960:980] != h2[960:980] or h1[4096:7696] != h2[4096:7696]:
        bad.append('hash / SEG-Y file header bytes changed')
    try:
        r = R.SgzReader(out)
        got = quiet(r.read_volume)
        exp = vol[:dims[0], :dims[1], :dims[2]]
        if got.shape != exp.shape or not bits_equal(got, exp):
            g, e = np.ascontiguousarray(got, dtype=np.float32).view(np.uint32), np.ascontiguousarray(exp, dtype=np.float32).view(np.uint32)
            bad.append('decoded volume differs from the source at %s of %d voxels' % (int(np.count_nonzero(g != e)) if g.shape == e.shape else 'shape %s' % (got.shape,), e.size))
        rs = R.SgzReader(src)
        for name in ('ilines', 'xlines', 'zslices'):
            a, b = np.asarray(getattr(rs, name)), np.asarray(getattr(r, name))
            if a.shape != b.shape or not np.array_equal(a, b):
                bad.append('%s axis changed: source %s.., re-blocked %s..' % (name, a[:3].tolist(), b[:3].tolist()))
        if rs.tracecount != r.tracecount:
            bad.append('trace count changed: source %d, re-blocked %d' % (rs.tracecount, r.tracecount))
        rs.close()
        present = [g for g in range(dims[0] * dims[1]) if g not in holes]
        for t in (0, len(present) - 1):
            hd = quiet(r.gen_trace_header, t)
            for f in stored:
                if int(hd[segyio.tracefield.TraceField(f)]) != int(headers[f][present[t]]):
                    bad.append('header of trace %d field %d differs' % (t, f))
        r.close()
    except Exception as e:
        bad.append('reading the re-blocked file raised %s: %s' % (type(e).__name__, str(e)[:80]))
    if bad:
        return dict(reproduced=True, detail='%s: %s' % (what, '; '.join(bad[:5])), extra=dict(outcome='reblock'))
    return dict(reproduced=False, detail='%s: output conforms and decodes to the source volume' % what)
