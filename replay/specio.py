"""Independent concrete SGZ writer / decoder written from docs/file-specification.md only
(real numpy + real zfpy + struct; no seismic_zfp code).  Used to *replay* solver counterexamples."""
import struct
import numpy as np
import zfpy

DISK = 4096
TRACE_FIELDS = [1, 5, 9, 13, 17, 21, 25, 29, 31, 33, 35, 37, 41, 45, 49, 53, 57, 61, 65, 69, 71, 73, 77, 81, 85, 89, 91,
                93, 95, 97, 99, 101, 103, 105, 107, 109, 111, 113, 115, 117, 119, 121, 123, 125, 127, 129, 131, 133,
                135, 137, 139, 141, 143, 145, 147, 149, 151, 153, 155, 157, 159, 161, 163, 165, 167, 169, 171, 173,
                175, 177, 179, 181, 185, 189, 193, 197, 201, 203, 205, 209, 211, 213, 215, 217, 219, 223, 225, 229,
                231]
V021 = (2 << 11) + (1 << 1) + 1


def pad_to(n, m):
    return ((n + m - 1) // m) * m


def enc_version(major, minor, patch, released=True):
    return (major << 21) + (minor << 11) + (patch << 1) + (1 if released else 0)


def rate_code(rate):
    return int(rate) if rate >= 1 else -int(round(1 / rate))


def random_cube(shape, seed=0):
    rng = np.random.default_rng(seed)
    return (rng.standard_normal(shape) * 100).astype(np.float32)


def zfp_block(a, rate):
    c = zfpy.compress_numpy(np.ascontiguousarray(a, dtype=np.float32), rate=rate, write_header=False)
    return bytes(c)


def zfp_decode(buf, shape, rate):
    return zfpy._decompress(bytes(buf), zfpy.dtype_to_ztype(np.dtype('float32')), tuple(shape), rate=rate)


def edge_pad(cube, shape):
    return np.pad(cube, [(0, p - s) for s, p in zip(cube.shape, shape)], 'edge')


def header_bytes(n_s, n_xl, n_il, z0, xl0, il0, interval, xl_step, il_step, rate, bs, data_blocks, entry_len,
                 n_arrays, tracecount, version, rows, segy_header=None, source=0, detection=0, hashbytes=None, is2d=False):
    h = bytearray(8192)
    struct.pack_into('<I', h, 0, 2)
    struct.pack_into('<I', h, 4, n_s)
    if not is2d:
        struct.pack_into('<I', h, 8, n_xl)
        struct.pack_into('<I', h, 12, n_il)
        struct.pack_into('<i', h, 20, xl0)
        struct.pack_into('<i', h, 24, il0)
        struct.pack_into('<i', h, 32, xl_step)
        struct.pack_into('<i', h, 36, il_step)
    struct.pack_into('<i', h, 16, z0)
    struct.pack_into('<i', h, 28, interval)
    struct.pack_into('<i', h, 40, rate_code(rate))
    struct.pack_into('<III', h, 44, *bs)
    struct.pack_into('<I', h, 56, data_blocks)
    struct.pack_into('<I', h, 60, entry_len)
    struct.pack_into('<I', h, 64, n_arrays)
    struct.pack_into('<I', h, 68, tracecount)
    struct.pack_into('<I', h, 72, version)
    struct.pack_into('<I', h, 76, source)
    struct.pack_into('<I', h, 80, detection)
    if hashbytes:
        h[960:980] = hashbytes
    for i, r in enumerate(rows):
        struct.pack_into('<iii', h, 980 + 12 * i, *r)
    if segy_header is not None:
        h[4096:4096 + 3600] = segy_header
    return bytes(h)


def table_rows(stored, consts=None):
    consts = consts or {}
    rows = []
    for f in TRACE_FIELDS:
        if f in stored:
            rows.append((f, 0, f))
        else:
            rows.append((f, consts.get(f, 0), 0))
    return rows


def write_sgz_3d(path, cube, bs, rate, il0=1, xl0=1, il_step=1, xl_step=1, z0=0, interval=4000, version=None,
                 headers=None, tracecount=None, segy_header=None):
    """Write a conforming SGZ file: blocks ordered il, xl, z; each block = zfp stream of the block-shaped array."""
    version = enc_version(0, 2, 5) if version is None else version
    n_il, n_xl, n_s = cube.shape
    sp = tuple(pad_to(n, b) for n, b in zip(cube.shape, bs))
    padded = edge_pad(cube, sp)
    headers = headers or {}
    stored = sorted(headers)
    entry = 4 * n_il * n_xl
    nblocks = (sp[0] // bs[0]) * (sp[1] // bs[1]) * (sp[2] // bs[2])
    hdr = header_bytes(n_s, n_xl, n_il, z0, xl0, il0, interval, xl_step, il_step, rate, bs, nblocks, entry, len(stored),
                       n_il * n_xl if tracecount is None else tracecount, version, table_rows(stored), segy_header)
    with open(path, 'wb') as f:
        f.write(hdr)
        for bi in range(sp[0] // bs[0]):
            for bx in range(sp[1] // bs[1]):
                for bz in range(sp[2] // bs[2]):
                    blk = padded[bi * bs[0]:(bi + 1) * bs[0], bx * bs[1]:(bx + 1) * bs[1], bz * bs[2]:(bz + 1) * bs[2]]
                    b = zfp_block(blk, rate)
                    assert len(b) == DISK, (len(b), bs, rate)
                    f.write(b)
        stride = pad_to(entry, 512) if version > V021 else entry
        for k in stored:
            a = np.asarray(headers[k], dtype='<i4').reshape(-1)
            assert a.size == n_il * n_xl
            b = a.tobytes()
            f.write(b + bytes(stride - len(b)))
    return padded


def write_sgz_2d(path, section, bs, rate, z0=0, interval=4000, version=None, headers=None):
    version = enc_version(0, 2, 5) if version is None else version
    ntr, n_s = section.shape
    sp = (pad_to(ntr, bs[1]), pad_to(n_s, bs[2]))
    padded = edge_pad(section, sp)
    headers = headers or {}
    stored = sorted(headers)
    entry = 4 * ntr
    nblocks = (sp[0] // bs[1]) * (sp[1] // bs[2])
    hdr = header_bytes(n_s, 0, 0, z0, 0, 0, interval, 0, 0, rate, bs, nblocks, entry, len(stored), ntr, version,
                       table_rows(stored), is2d=True)
    with open(path, 'wb') as f:
        f.write(hdr)
        for bt in range(sp[0] // bs[1]):
            for bz in range(sp[1] // bs[2]):
                blk = padded[bt * bs[1]:(bt + 1) * bs[1], bz * bs[2]:(bz + 1) * bs[2]]
                b = zfp_block(blk, rate)
                assert len(b) == DISK, (len(b), bs, rate)
                f.write(b)
        stride = pad_to(entry, 512) if version > V021 else entry
        for k in stored:
            b = np.asarray(headers[k], dtype='<i4').reshape(-1).tobytes()
            f.write(b + bytes(stride - len(b)))
    return padded


def parse_header(h):
    g = lambda fmt, off: struct.unpack_from(fmt, h, off)[0]
    d = dict(n_header_blocks=g('<I', 0), n_s=g('<I', 4), n_xl=g('<I', 8), n_il=g('<I', 12), z0=g('<i', 16), xl0=g('<i', 20),
             il0=g('<i', 24), interval=g('<i', 28), xl_step=g('<i', 32), il_step=g('<i', 36), rate_code=g('<i', 40),
             bs=(g('<I', 44), g('<I', 48), g('<I', 52)), data_blocks=g('<I', 56), entry_len=g('<I', 60),
             n_arrays=g('<I', 64), tracecount=g('<I', 68), version=g('<I', 72), source=g('<I', 76), detection=g('<I', 80))
    rc = d['rate_code']
    d['rate'] = rc if rc > 0 else 1.0 / (-rc)
    d['rows'] = [struct.unpack_from('<iii', h, 980 + 12 * i) for i in range(89)]
    return d


def decode_sgz(path):
    """Cell-by-cell (block-by-block) decode of an SGZ file from the specification alone -> (header dict, padded volume)."""
    with open(path, 'rb') as f:
        data = f.read()
    d = parse_header(data[:8192])
    bs, rate = d['bs'], d['rate']
    start = d['n_header_blocks'] * DISK
    if bs[0] == 1:
        ntr = d['tracecount']
        sp = (pad_to(ntr, bs[1]), pad_to(d['n_s'], bs[2]))
        vol = np.zeros(sp, dtype=np.float32)
        k = 0
        for bt in range(sp[0] // bs[1]):
            for bz in range(sp[1] // bs[2]):
                blk = zfp_decode(data[start + k * DISK: start + (k + 1) * DISK], (bs[1], bs[2]), rate)
                vol[bt * bs[1]:(bt + 1) * bs[1], bz * bs[2]:(bz + 1) * bs[2]] = blk
                k += 1
        return d, vol
    sp = tuple(pad_to(n, b) for n, b in zip((d['n_il'], d['n_xl'], d['n_s']), bs))
    vol = np.zeros(sp, dtype=np.float32)
    k = 0
    for bi in range(sp[0] // bs[0]):
        for bx in range(sp[1] // bs[1]):
            for bz in range(sp[2] // bs[2]):
                blk = zfp_decode(data[start + k * DISK: start + (k + 1) * DISK], bs, rate)
                vol[bi * bs[0]:(bi + 1) * bs[0], bx * bs[1]:(bx + 1) * bs[1], bz * bs[2]:(bz + 1) * bs[2]] = blk
                k += 1
    return d, vol


def footer_arrays(path):
    """Stored header arrays per the spec: {field: int32 array} (offsets from version / entry length / count)."""
    with open(path, 'rb') as f:
        data = f.read()
    d = parse_header(data[:8192])
    base = d['n_header_blocks'] * DISK + d['data_blocks'] * DISK
    stride = pad_to(d['entry_len'], 512) if d['version'] > V021 else d['entry_len']
    out = {}
    k = 0
    for (fld, const, dup) in d['rows']:
        if const == 0 and dup == fld:
            out[fld] = np.frombuffer(data[base + k * stride: base + k * stride + d['entry_len']], dtype='<i4')
            k += 1
    return d, out
