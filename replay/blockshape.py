"""Replay of C19 counterexamples: a real conversion with the (bits_per_voxel, blockshape) setting of the model must either
raise before producing an output or produce a file that reads back as the ZFP image of the source."""
import os
import numpy as np
from replay.run import register, quiet, bits_equal
from replay import specio
from replay.writers import pin_version, zfp_image


@register('blockshape')
def replay_blockshape(req, tmp):
    m_ = req['model']
    S = req['S']
    bpv, is2d = req['bpv'], req['is2d']
    pos = m_['sym_pos']
    bs = [None, None, None]
    bs[pos] = m_['s']
    others = [k for k in range(3) if k != pos]
    if is2d:
        bs[0] = 1
        k2 = [k for k in others if k != 0][0]
        bs[k2] = S[m_['o2_idx']]
    else:
        bs[others[0]] = S[m_['o1_idx']]
        bs[others[1]] = S[m_['o2_idx']]
    bs = tuple(bs)
    pin_version('0.2.5')
    from seismic_zfp.utils import define_blockshape_3d, define_blockshape_2d
    out = os.path.join(tmp, 'o.sgz')
    what = '%s converter with bits_per_voxel=%r, blockshape=%s' % ('2D SEG-Y' if is2d else 'NumPy', bpv, bs)
    try:
        rate, rbs = quiet(define_blockshape_2d if is2d else define_blockshape_3d, bpv, bs)
    except Exception as e:
        valid = 'valid setting was rejected' in req.get('obligation', '')
        if valid:
            return dict(reproduced=True, detail='%s: define_blockshape raised %s for a valid setting' % (what, type(e).__name__), extra=dict(outcome='rejected-valid'))
        return dict(reproduced=False, detail='%s rejected (%s)' % (what, type(e).__name__))
    # the conversion runs in a forked child: an accepted invalid layout can take the interpreter down (SIGSEGV inside
    # the compressor), which is an observation about the real code, not a replay failure
    import json
    import signal
    resf = os.path.join(tmp, 'child.json')
    pid = os.fork()
    if pid == 0:
        rc = 1
        try:
            r_ = _convert_and_read(what, rate, rbs, bpv, bs, is2d, out, tmp)
            with open(resf, 'w') as fh:
                json.dump(r_, fh)
            rc = 0
        finally:
            os._exit(rc)
    _, status = os.waitpid(pid, 0)
    if os.WIFSIGNALED(status):
        return dict(reproduced=True, detail='%s: define_blockshape accepted it as (%s, %s); the conversion then killed the interpreter (signal %d)' % (
            what, rate, rbs, os.WTERMSIG(status)), extra=dict(outcome='crashed'))
    if not os.path.exists(resf):
        return dict(reproduced=False, detail='%s: replay child failed' % what, harness_error=True)
    with open(resf) as fh:
        return json.load(fh)


def _convert_and_read(what, rate, rbs, bpv, bs, is2d, out, tmp):
    try:
        if is2d:
            from replay.segymake import make_segy
            from seismic_zfp.conversion import SegyConverter
            sgy = os.path.join(tmp, 'in.sgy')
            traces, headers, pos_ = make_segy(sgy, '2d', (21, 37), fmt=5)
            with SegyConverter(sgy) as c:
                quiet(c.run, out, bits_per_voxel=bpv, blockshape=bs)
            src = traces
        else:
            from seismic_zfp.conversion import NumpyConverter
            src = specio.random_cube((6, 9, 21), 1)
            with NumpyConverter(src) as c:
                quiet(c.run, out, bits_per_voxel=bpv, blockshape=bs)
    except Exception as e:
        if os.path.exists(out) and os.path.getsize(out) > 0:
            return dict(reproduced=True, detail='%s: define_blockshape accepted it as (%s, %s); the conversion then raised %s after creating the output file' % (
                what, rate, rbs, type(e).__name__), extra=dict(outcome='raised-late'))
        return dict(reproduced=False, detail='%s raised %s before producing an output' % (what, type(e).__name__))
    import seismic_zfp.read as R
    try:
        r = R.SgzReader(out)
        got = quiet(r.read_subplane, 0, src.shape[0], 0, src.shape[1]) if is2d else quiet(r.read_volume)
        r.close()
    except Exception as e:
        return dict(reproduced=True, detail='%s accepted (resolved to rate %s, blockshape %s) and a file was written, but it cannot be read: %s: %s' % (
            what, rate, rbs, type(e).__name__, str(e)[:80]), extra=dict(outcome='unreadable'))
    try:
        exp = zfp_image(src, float(rate))
        same = got.shape == exp.shape and bits_equal(got, exp)
    except Exception:
        same = False
    if not same:
        return dict(reproduced=True, detail='%s accepted (rate %s, blockshape %s); the file does not read back as the ZFP image of the source' % (what, rate, rbs),
                    extra=dict(outcome='unfaithful'))
    return dict(reproduced=False, detail='%s: accepted and faithful' % what)
