"""Lazy byte sequences carrying provenance instead of values (stub for bytes / bytearray / file content).

A LazyBytes is a length plus layers [(start, length, src, src_off)] (newest last) over a default.
`resolve(p, n)` answers "where do bytes [p, p+n) come from" with a *leaf*:
    ('zero',)                    zero bytes
    ('file', fid, off)           bytes off.. of abstract file fid
    ('code', bufid, off)         bytes off.. of the ZFP stream produced by compress call bufid
    ('const', bytes, off)        bytes off.. of a real bytes object
    ('field', value, fmt, off)   bytes off.. of struct.pack(fmt, value)
    ('i32', arr, elem, k)        byte k.. of int32 element `elem` of LazyArr arr
    ('eof',)                     beyond the end (short read)
    ('mixed',)                   the range straddles a layer boundary
All positions may be SymInt; membership tests fork through SymBool.__bool__.
Contract (validated against real bytearray in selftest): Python slice normalisation, slice
assignment with resize when lengths differ, concatenation, short slices past the end.
"""
from symx.core import SymInt, is_sym, b_and, b_or, Unsupported, eng, mk, fx
import struct as _struct

ZERO = ('zero',)
EOF = ('eof',)
MIXED = ('mixed',)


class Src:
    def resolve(self, off, n):
        raise NotImplementedError


class ZeroSrc(Src):
    def resolve(self, off, n):
        return ZERO


class EofSrc(Src):
    def resolve(self, off, n):
        return EOF


class FileSrc(Src):
    def __init__(self, fid):
        self.fid = fid

    def resolve(self, off, n):
        return ('file', self.fid, off)


class CodeSrc(Src):
    def __init__(self, bufid):
        self.bufid = bufid

    def resolve(self, off, n):
        return ('code', self.bufid, off)


class ConstSrc(Src):
    def __init__(self, b):
        self.b = bytes(b)

    def resolve(self, off, n):
        return ('const', self.b, off)


class FieldSrc(Src):
    def __init__(self, value, fmt):
        self.value, self.fmt = value, fmt

    def resolve(self, off, n):
        return ('field', self.value, self.fmt, off)


class TagSrc(Src):
    """Opaque tagged bytes, e.g. ('segy', off), ('hash', k)."""
    def __init__(self, tag):
        self.tag = tag

    def resolve(self, off, n):
        return (self.tag, off)


def norm_index(i, n):
    """Python index normalisation for a slice bound; returns clamped value in [0, n]."""
    if i is None:
        return None
    if isinstance(i, SymInt) and i.isfloat:
        raise TypeError("slice indices must be integers or None or have an __index__ method")
    if isinstance(i, float):
        raise TypeError("slice indices must be integers or None or have an __index__ method")
    if i < 0:
        i = i + n
        if i < 0:
            i = 0
    if i > n:
        i = n
    return i


def norm_slice(k, n):
    """slice -> (start, count) for step None/1."""
    if k.step is not None and k.step != 1:
        raise Unsupported("byte slice with step")
    a = norm_index(k.start, n)
    b = norm_index(k.stop, n)
    if a is None:
        a = 0
    if b is None:
        b = n
    if b < a:
        b = a
    return a, b - a


class LazyBytes:
    def __init__(self, length, layers=None, mutable=False, default=ZERO):
        self.length = fx(length)
        self.layers = [(fx(a), fx(b), c, fx(d)) for (a, b, c, d) in (layers or [])]
        self.mutable = mutable
        self.default = default

    # ---- construction helpers
    @staticmethod
    def zeros(n, mutable=False):
        return LazyBytes(n, [], mutable)

    @staticmethod
    def of(src, n, off=0, mutable=False):
        return LazyBytes(n, [(0, n, src, off)], mutable)

    @staticmethod
    def wrap(b, mutable=False):
        if isinstance(b, LazyBytes):
            return b
        if isinstance(b, (bytes, bytearray, memoryview)):
            return LazyBytes.of(ConstSrc(b), len(b), 0, mutable)
        raise Unsupported("cannot wrap %r as bytes" % type(b))

    def snapshot(self):
        if not self.mutable:
            return self
        return LazyBytes(self.length, list(self.layers), False, self.default)

    def sym_len(self):
        return self.length

    def __len__(self):
        return self.length  # SymInt -> __index__ -> concretised; prefer sym_len via shadowed len()

    def sym_isinstance(self, cls):
        classes = cls if isinstance(cls, tuple) else (cls,)
        if bytes in classes and not self.mutable:
            return True
        if bytearray in classes and self.mutable:
            return True
        return None

    # ---- provenance
    def resolve(self, p, n=1):
        """Leaf describing bytes [p, p+n). Forks on layer membership when positions are symbolic."""
        if b_or(p < 0, p + n > self.length):
            return EOF
        for (st, ln, src, so) in reversed(self.layers):
            if b_or(st >= p + n, st + ln <= p):
                continue
            if b_and(p >= st, p + n <= st + ln):
                return src.resolve(so + (p - st), n)
            return MIXED
        return self.default

    # ---- bytes API
    def __getitem__(self, k):
        if isinstance(k, slice):
            a, cnt = norm_slice(k, self.length)
            return LazyBytes(cnt, [(0, cnt, self.snapshot(), a)], False)
        # single byte
        if k < 0:
            k = k + self.length
        if b_or(k < 0, k >= self.length):
            raise IndexError("index out of range")
        return ByteVal(self.resolve(k, 1))

    def __setitem__(self, k, v):
        if not self.mutable:
            raise TypeError("'bytes' object does not support item assignment")
        if not isinstance(k, slice):
            raise Unsupported("single byte assignment")
        v = LazyBytes.wrap(v).snapshot()
        a, cnt = norm_slice(k, self.length)
        a, cnt = fx(a), fx(cnt)
        vl = v.length
        if cnt == vl:
            self.layers.append((a, vl, v, 0))
            return
        # bytearray semantics: the slice is replaced, the array is resized
        old = self.snapshot()
        tail = old.length - (a + cnt)
        self.layers = [(0, a, old, 0), (a, vl, v, 0), (fx(a + vl), fx(tail), old, fx(a + cnt))]
        self.length = fx(a + vl + tail)

    def __add__(self, o):
        o = LazyBytes.wrap(o).snapshot()
        s = self.snapshot()
        return LazyBytes(s.length + o.length, [(0, s.length, s, 0), (s.length, o.length, o, 0)], self.mutable)

    def __radd__(self, o):
        return LazyBytes.wrap(o).__add__(self)

    def copy(self):
        return LazyBytes(self.length, list(self.layers), self.mutable, self.default)

    def __eq__(self, o):
        if isinstance(o, (bytes, bytearray)):
            if self.length != len(o):
                return False
            for i in range(len(o)):
                bv = byte_value(self.resolve(i, 1))
                if bv != o[i]:
                    return False
            return True
        if isinstance(o, LazyBytes):
            raise Unsupported("LazyBytes == LazyBytes")
        return NotImplemented

    def __ne__(self, o):
        r = self.__eq__(o)
        return r if r is NotImplemented else (not r)

    __hash__ = None

    def hex(self):
        return HexOf(self)

    def decode(self, *a, **k):
        return DecodedText(self)

    def __repr__(self):
        return "LazyBytes(len=%s, layers=%d)" % (self.length, len(self.layers))


class HexOf:
    def __init__(self, b):
        self.b = b


class DecodedText:
    def __init__(self, b):
        self.b = b


class ByteVal:
    """One byte with provenance (result of b[i])."""
    def __init__(self, leaf):
        self.leaf = leaf


def byte_value(leaf):
    """Numeric value of a single byte leaf when it has one (int or SymInt)."""
    kind = leaf[0]
    if kind == 'zero':
        return 0
    if kind == 'const':
        off = leaf[2]
        if is_sym(off):
            off = int(off)
        return leaf[1][off]
    if kind == 'field':
        value, fmt, off = leaf[1], leaf[2], leaf[3]
        if not is_sym(value):
            return _struct.pack(fmt, value)[int(off)]
        width = _struct.calcsize(fmt)
        u = value % (1 << (8 * width))
        off = int(off)
        if fmt[0] == '>':
            off = width - 1 - off
        return (u // (1 << (8 * off))) % 256
    raise Unsupported("byte value of %r" % (leaf[0],))


# ---------------------------------------------------------------------- struct shim
class StructError(_struct.error):
    pass


_RANGES = {'I': (0, 2 ** 32 - 1), 'i': (-2 ** 31, 2 ** 31 - 1), 'H': (0, 2 ** 16 - 1), 'h': (-2 ** 15, 2 ** 15 - 1)}


class ShimStruct:
    """struct.pack/unpack for '<I <i <H <h >H <d' keeping symbolic values symbolic (range errors preserved)."""
    error = _struct.error

    @staticmethod
    def calcsize(fmt):
        return _struct.calcsize(fmt)

    @staticmethod
    def pack(fmt, v):
        if hasattr(v, 'sym_scalar'):
            v = v.sym_scalar()
        if not is_sym(v):
            return _struct.pack(fmt, v)
        code = fmt[-1]
        if code not in _RANGES:
            raise Unsupported("struct.pack(%r) of symbolic value" % fmt)
        if v.isfloat:
            raise _struct.error("required argument is not an integer")
        lo, hi = _RANGES[code]
        if b_or(v < lo, v > hi):
            raise _struct.error("argument out of range")
        w = _struct.calcsize(fmt)
        return LazyBytes.of(FieldSrc(v, fmt), w)

    @staticmethod
    def unpack(fmt, b):
        if isinstance(b, (bytes, bytearray)):
            return _struct.unpack(fmt, b)
        if not isinstance(b, LazyBytes):
            raise Unsupported("struct.unpack of %r" % type(b))
        w = _struct.calcsize(fmt)
        if b.length != w:
            raise _struct.error("unpack requires a buffer of %d bytes" % w)
        leaf = b.resolve(0, w)
        return (unpack_leaf(fmt, leaf, w),)


def reinterpret(value, from_code, to_code):
    """Value packed with from_code, unpacked with to_code (same width), two's complement."""
    if from_code == to_code:
        return value
    width = {'I': 32, 'i': 32, 'H': 16, 'h': 16}[to_code]
    if to_code in 'ih':   # unsigned -> signed
        if value >= (1 << (width - 1)):
            return value - (1 << width)
        return value
    if value < 0:
        return value + (1 << width)
    return value


def unpack_leaf(fmt, leaf, w):
    kind = leaf[0]
    if kind == 'zero':
        return 0.0 if fmt[-1] == 'd' else 0
    if kind == 'const':
        off = leaf[2]
        off = int(off) if is_sym(off) else off
        return _struct.unpack(fmt, leaf[1][off:off + w])[0]
    if kind == 'field':
        value, pfmt, off = leaf[1], leaf[2], leaf[3]
        if _struct.calcsize(pfmt) == w and off == 0:
            if pfmt[0] != fmt[0]:
                raise Unsupported("byte-order mismatch pack %s / unpack %s" % (pfmt, fmt))
            if not is_sym(value):
                return _struct.unpack(fmt, _struct.pack(pfmt, value))[0]
            return reinterpret(value, pfmt[-1], fmt[-1])
        raise Unsupported("misaligned unpack of a packed field")
    if kind == 'i32':
        arr, elem, k = leaf[1], leaf[2], leaf[3]
        if w == 4 and k == 0:
            return reinterpret(arr.get((elem,)), 'i', fmt[-1])
        raise Unsupported("misaligned unpack of int32 array bytes")
    if kind == 'eof':
        raise _struct.error("unpack requires a buffer of %d bytes" % w)
    if kind == 'i32be' and w == 4:
        return ('badint', leaf)      # byte-swapped array bytes: not the element's value
    if kind == 'file' and w == 4 and fmt == '<i':
        return ('badint', leaf)      # same provenance as np.frombuffer(..., int32) of these abstract file bytes
    raise Unsupported("unpack of %s bytes" % kind)


# ---------------------------------------------------------------------- builtins bytes()/bytearray()
def shim_bytes(x=b'', *a):
    if isinstance(x, LazyBytes):
        s = x.snapshot()
        return LazyBytes(s.length, s.layers, False, s.default)
    if is_sym(x):
        if x < 0:
            raise ValueError("negative count")
        return LazyBytes.zeros(x, False)
    if hasattr(x, 'tobytes') and hasattr(x, 'lazy'):
        return x.tobytes()
    return bytes(x, *a)


def shim_bytearray(x=b'', *a, **kw):
    if isinstance(x, DecodedText):
        # bytearray(text, encoding=..., errors=...) of decoded file-header bytes: opaque text of the same bytes
        s = x.b.snapshot()
        return LazyBytes(s.length, [(0, s.length, TagSrc(('recoded', x.b)), 0)], True)
    if kw:
        return bytearray(x, *a, **kw)
    if isinstance(x, LazyBytes):
        s = x.snapshot()
        return LazyBytes(s.length, list(s.layers), True, s.default)
    if is_sym(x):
        if x < 0:
            raise ValueError("negative count")
        return LazyBytes.zeros(x, True)
    if isinstance(x, int):
        return LazyBytes.zeros(x, True)
    if isinstance(x, (bytes, bytearray)):
        return LazyBytes.of(ConstSrc(x), len(x), 0, True)
    return bytearray(x, *a)


class LazyView:
    """memoryview(bytearray)[a:b] of a lazy byte array: a window that writes through to its base (what file.readinto fills)."""
    def __init__(self, base, off=0, length=None):
        self.base, self.off = base, off
        self.length = base.length - off if length is None else length

    def __len__(self):
        return _sb.sym_len_value(self.length) if hasattr(_sb, 'sym_len_value') else self.length

    @property
    def nbytes(self):
        return self.length

    def __getitem__(self, k):
        if not isinstance(k, slice):
            raise Unsupported("single byte of a memoryview")
        a, cnt = norm_slice(k, self.length)
        return LazyView(self.base, fx(self.off + a), fx(cnt))

    def write(self, data):
        """Store data (LazyBytes, not longer than the window) at the start of the window; -> number of bytes stored."""
        d = LazyBytes.wrap(data).snapshot()
        n = d.length
        self.base[self.off:self.off + n] = d
        return n

    def tobytes(self):
        return self.base[self.off:self.off + self.length]


def shim_memoryview(x):
    if isinstance(x, LazyBytes):
        return LazyView(x)
    if isinstance(x, LazyView):
        return x
    return memoryview(x)


from symx import builtins as _sb  # noqa: E402
_sb.UNSHADOW.update({shim_bytes: bytes, shim_bytearray: bytearray, shim_memoryview: memoryview})
