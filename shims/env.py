"""Environment stubs: files, zfpy (fixed-rate contract), thread-pool executor, and the installer that
shadows module-global names inside the repo's modules (the function bodies executed are the ones on disk).
"""
import os
import sys
import importlib
import numpy as real_np
from symx.core import SymInt, is_sym, b_and, b_or, Unsupported, eng, PathAbort, fx
from symx import builtins as sb
from .lazybytes import (LazyBytes, FileSrc, CodeSrc, ConstSrc, ShimStruct, shim_bytes, shim_bytearray, shim_memoryview, LazyView, ZERO, EOF,
                        MIXED, TagSrc)
from .lazyarr import LazyArr, ShimNP, from_numpy


class PathCtx:
    """Per-path registries (reset at the start of every path by the harness)."""
    def __init__(self):
        self.compress_calls = []     # (frozen input LazyArr, rate, ub)
        self.files = {}              # name -> ShimFile content holder
        self.hash_updates = []
        self.hash_objects = []
        self.queues = []
        self.baton = Baton()
        self.dist_version = '0.2.5'
        self.notes = []
        self.last_store = None
        self.oplog = {}          # thread index (None = calling thread) -> [(op, arg)] for the C16 program extraction


CTX = None


def oplog(op, arg=None):
    if CTX is None:
        return
    cur = CTX.baton.current
    tid = None if cur is None else CTX.baton.threads.index(cur)
    CTX.oplog.setdefault(tid, []).append((op, arg))


def reset_ctx():
    global CTX
    if CTX is not None and CTX.baton.threads:
        CTX.baton.shutdown()
    CTX = PathCtx()
    clear_all_caches()      # every path starts in a fresh process state (class-level lru caches are empty)
    return CTX


def ctx():
    return CTX


# ---------------------------------------------------------------------------------- files
class FileStore:
    """Content of one file (shared between handles)."""
    def __init__(self, content=None, name='file'):
        self.content = content if content is not None else LazyBytes(0, [], True)
        self.name = name
        self.writes = []     # (pos, length, what) in order
        self.reads = []      # (pos, requested, returned) in order


class ShimFile:
    """File object over a FileStore: seek/read/write/tell/flush/close with Python semantics
    (read at/after EOF returns short/empty; write past the end extends; write inside overwrites)."""
    def __init__(self, store, mode='rb', fault=None):
        self.store = store
        self.name = store.name
        self.mode = mode
        self.pos = 0
        self.closed = False
        self.fault = fault           # optional callable(file, pos, n) -> None | LazyBytes | raises
        if 'w' in mode:
            store.content = LazyBytes(0, [], True)

    def seek(self, off, whence=0):
        if self.closed:
            raise ValueError("seek of closed file")
        if whence == 0:
            if off < 0:
                raise OSError(22, "Invalid argument")
            self.pos = off
        elif whence == 1:
            self.pos = self.pos + off
        else:
            self.pos = self.store.content.length + off
        return self.pos

    def tell(self):
        return self.pos

    def read(self, n=-1):
        if self.closed:
            raise ValueError("read of closed file")
        c = self.store.content
        size = c.length
        if n is None or (not is_sym(n) and n < 0):
            n = size - self.pos
        if is_sym(n) and n < 0:
            n = size - self.pos
        avail = size - self.pos
        if avail < 0:
            avail = 0
        got = n
        if got > avail:
            got = avail
        if self.fault is not None:
            r = self.fault(self, self.pos, n, got)
            if r is not None:
                got = r
        out = LazyBytes(got, [(0, got, c.snapshot(), self.pos)], False)
        self.store.reads.append((self.pos, n, got))
        self.pos = self.pos + got
        return out

    def readinto(self, buf):
        """io.RawIOBase.readinto: fill buf (a lazy bytearray or a view of one) from the current position; -> bytes stored
        (fewer than len(buf) at end of file / on a short read)."""
        if isinstance(buf, LazyBytes):
            buf = LazyView(buf)
        if not isinstance(buf, LazyView):
            raise Unsupported("readinto a concrete buffer")
        data = self.read(buf.length)
        return buf.write(data)

    def write(self, b):
        if self.closed:
            raise ValueError("write to closed file")
        if 'r' in self.mode and '+' not in self.mode:
            raise OSError("not writable")
        if hasattr(b, 'lazy') and hasattr(b, 'tobytes'):
            b = b.tobytes()
        b = LazyBytes.wrap(b).snapshot()
        c = self.store.content
        n = fx(b.length)
        self.pos = fx(self.pos)
        end = fx(self.pos + n)
        if self.pos > c.length:
            # hole is zero-filled
            c.layers.append((c.length, self.pos - c.length, LazyBytes.zeros(self.pos - c.length), 0))
        c.layers.append((self.pos, n, b, 0))
        if end > c.length:
            c.length = end
        self.store.writes.append((self.pos, n, b))
        if 'w' in self.mode:
            oplog('write', len(self.store.writes) - 1)
        self.pos = end
        return n

    def flush(self):
        if 'w' in self.mode:
            oplog('flush')

    def close(self):
        self.closed = True

    def __enter__(self):
        return self

    def __exit__(self, *a):
        self.close()
        return False


class Excuse:
    """Callable telling the harness whether an injected fault has fired on this path."""
    def __init__(self, fn, must_fire=True):
        self.fn, self.must_fire = fn, must_fire

    def __call__(self):
        return self.fn()


class InjectedIOError(OSError):
    pass


class FaultPlan:
    """Fault at a SYMBOLIC position k in the sequence of range reads: kind 'exc' (the read raises), 'short'
    (returns a symbolic shorter length, at least 1 byte missing) or 'empty' (returns nothing).  Optionally a second
    fault of kind `second` at a later symbolic position."""
    def __init__(self, E, kind, after_open=True, second=None):
        self.E, self.kind, self.second = E, kind, second
        self.k = E.fresh('fault_k', 0)
        self.k2 = None
        if second:
            self.k2 = E.fresh('fault_k2', 0)
            E.assume(self.k2 > self.k)
        self.count = 0
        self.active = not after_open
        self.fired = False
        self.excuse = Excuse(lambda: self.fired, must_fire=True)

    def opened(self):
        self.active = True

    def _apply(self, kind, n, got, tag):
        self.fired = True
        if kind == 'exc':
            raise InjectedIOError("injected I/O failure")
        if kind == 'empty':
            return 0
        s = self.E.fresh('fault_len' + tag, 0)
        self.E.assume(b_and(s < got, s < n))
        return s

    def __call__(self, f, pos, n, got):
        if not self.active:
            return None
        idx = self.count
        self.count += 1
        if self.k == idx:
            return self._apply(self.kind, n, got, '')
        if self.k2 is not None and self.k2 == idx:
            return self._apply(self.second, n, got, '2')
        return None


class _BlobDownload:
    def __init__(self, data):
        self._data = data

    def readall(self):
        return self._data


class ShimBlob:
    """azure BlobClient contract used by the repo: download_blob(offset=, length=).readall() returns the bytes of the
    range (shorter at the end of the blob); every call is logged like a file read."""
    def __init__(self, store, fault=None):
        self.store = store
        self.blob_name = store.name
        self.fault = fault
        self.closed = False

    def download_blob(self, offset=None, length=None, **kw):
        c = self.store.content
        size = c.length
        pos = 0 if offset is None else offset
        n = size - pos if length is None else length
        avail = size - pos
        if avail < 0:
            avail = 0
        got = n
        if got > avail:
            got = avail
        if self.fault is not None:
            r = self.fault(self, pos, n, got)
            if r is not None:
                got = r
        out = LazyBytes(got, [(0, got, c.snapshot(), pos)], False)
        self.store.reads.append((pos, n, got))
        return _BlobDownload(out)

    def close(self):
        self.closed = True


class ShimFS:
    """open() replacement over named FileStores."""
    def __init__(self):
        self.stores = {}
        self.opened = []

    def add(self, name, store):
        store.name = name
        self.stores[name] = store
        return store

    def open(self, name, mode='r', *a, **k):
        self.opened.append((name, mode))
        if 'w' in mode:
            if name not in self.stores:
                self.stores[name] = FileStore(None, name)
        if name not in self.stores:
            raise FileNotFoundError(name)
        return ShimFile(self.stores[name], mode)


# ---------------------------------------------------------------------------------- zfpy contract
class ShimZfpy:
    """ZFP fixed-rate contract.  compress_numpy(a, rate, write_header=False): dims multiples of 4 ->
    cells coded independently, 4^d * rate bits each (>= 9 bits, whole bytes), concatenated in C-order of the
    cell grid.  _decompress(buf, ztype, shape, out, rate): voxel (a,b,c) of cell k is a function of the bytes
    [k*ub, (k+1)*ub) of buf only -> provenance ('dec', leaf, (a,b,c))."""
    type_float = 'f32'

    @staticmethod
    def dtype_to_ztype(d):
        return 'f32'

    @staticmethod
    def _ub(rate, ndim):
        bits = (4 ** ndim) * rate
        if bits != int(bits) or int(bits) % 8 != 0 or bits < 9:
            return None
        return int(bits) // 8

    def compress_numpy(self, arr, rate=None, write_header=True, **kw):
        if write_header is not False:
            raise Unsupported("compress_numpy with header")
        if isinstance(arr, real_np.ndarray):
            arr = from_numpy(arr)
        if not isinstance(arr, LazyArr):
            raise Unsupported("compress_numpy of %r" % type(arr))
        nd = arr.ndim
        ub = self._ub(rate, nd)
        fz = arr.frozen()
        bufid = len(CTX.compress_calls)
        aligned = True
        ncell = 1
        for s in arr.shape:
            if s % 4 != 0:
                aligned = False
            ncell = ncell * ((s + 3) // 4)
        CTX.compress_calls.append(dict(arr=fz, rate=rate, ub=ub, aligned=aligned, shape=arr.shape))
        if ub is None:
            CTX.notes.append("compress at rate %r for %d-d input is not a byte-aligned fixed-rate stream" % (rate, nd))
            return LazyBytes.of(TagSrc(('garbage', 'not-fixed-rate', bufid)), ncell * max(1, int((4 ** nd) * rate) // 8))
        return LazyBytes.of(CodeSrc(bufid), ncell * ub)

    def _decompress(self, buf, ztype, shape, out=None, rate=None, **kw):
        buf = LazyBytes.wrap(buf).snapshot()
        if buf.length == 0:
            # validated against real zfpy: an empty buffer is rejected, any non-empty one is decoded unchecked
            raise IndexError("Out of bounds on buffer access (axis 0)")
        nd = len(shape)
        ub = self._ub(rate, nd)
        cshape = tuple((s + 3) // 4 for s in shape)
        aligned = all((s % 4 == 0) for s in shape)

        def g(idx):
            if ub is None or not aligned:
                return ('garbage', 'decode-contract')
            c = 0
            for q, n in zip(idx, cshape):
                c = c * n + q // 4
            leaf = buf.resolve(c * ub, ub)
            return ('dec', leaf, tuple(q % 4 for q in idx))
        res = LazyArr(tuple(shape), g, 'prov', 'f4')
        if out is not None:
            if isinstance(out, LazyArr):
                out.assign_all(res)
                return out
            raise Unsupported("decompress into a real numpy array")
        return res


# ---------------------------------------------------------------------------------- executor
class ShimFuture:
    def __init__(self):
        self._exc = None
        self._res = None

    def result(self, timeout=None):
        if not getattr(self, '_done', True):
            self._pool._drain()
        if self._exc is not None:
            raise self._exc
        return self._res

    def exception(self, timeout=None):
        return self._exc

    def done(self):
        return True


class SyncExecutor:
    """concurrent.futures.ThreadPoolExecutor contract: submit() runs the task; an exception raised by the
    task is stored in the future (never propagates unless result() is called); __exit__ waits."""
    submitted = 0
    order = 'submit'      # 'submit': run at submit; 'reverse': run all queued tasks in reverse order at exit (max_workers > 1 only)

    def __init__(self, max_workers=None, **kw):
        self.max_workers = max_workers
        self.futures = []
        self.pending = []

    def __enter__(self):
        return self

    def __exit__(self, *a):
        self._drain()
        return False

    def _run(self, f, fn, a, k):
        try:
            f._res = fn(*a, **k)
        except Exception as e:   # PathAbort is BaseException and propagates
            f._exc = e
        f._done = True

    def _drain(self):
        pend, self.pending = self.pending, []
        for (f, fn, a, k) in reversed(pend):
            self._run(f, fn, a, k)

    def submit(self, fn, *a, **k):
        f = ShimFuture()
        f._pool = self
        if SyncExecutor.order == 'reverse' and (self.max_workers is None or self.max_workers > 1):
            f._done = False
            self.pending.append((f, fn, a, k))
        else:
            self._run(f, fn, a, k)
        self.futures.append(f)
        return f

    def map(self, fn, *its, timeout=None, chunksize=1):
        # real contract: tasks are submitted at once; the returned iterator raises a task's exception only when
        # that result is consumed
        fs = [self.submit(fn, *args) for args in zip(*its)]

        def results():
            for f in fs:
                yield f.result()
        return results()

    def shutdown(self, wait=True, **kw):
        self._drain()


class ShimCF:
    ThreadPoolExecutor = SyncExecutor

    @staticmethod
    def as_completed(fs, timeout=None):
        fs = list(fs)
        for f in fs:
            if not getattr(f, '_done', True):
                f._pool._drain()
        return fs

    @staticmethod
    def wait(fs, timeout=None, return_when=None):
        fs = list(fs)
        for f in fs:
            if not getattr(f, '_done', True):
                f._pool._drain()
        return (set(fs), set())


class ShimPsutil:
    class _VM:
        total = 1 << 40

    @staticmethod
    def virtual_memory():
        return ShimPsutil._VM()

    @staticmethod
    def cpu_count(logical=True):
        return 4


# ---------------------------------------------------------------------------------- installer
_SAVED = {}


def repo_modules():
    """(Re)import the repo's modules from /repo's working tree."""
    repo = os.environ.get('VERIF_REPO', '/repo')
    if repo not in sys.path:
        sys.path.insert(0, repo)
    import seismic_zfp
    mods = {}
    for n in ('utils', 'version', 'headers', 'loader', 'read', 'conversion_utils', 'conversion', 'cropping',
              'accessors', 'segyio_emulator', 'tools', 'sgzconstants', 'seismicfile'):
        mods[n] = importlib.import_module('seismic_zfp.' + n)
    return mods


def install(mods, np_shim=None, zfpy_shim=None, extra=None):
    """Shadow builtins/imports inside the repo's modules. Returns the shims used."""
    np_shim = np_shim or ShimNP()
    zfpy_shim = zfpy_shim or ShimZfpy()
    common = dict(sb.COMMON)
    common.update(bytes=shim_bytes, bytearray=shim_bytearray, memoryview=shim_memoryview)
    for name, m in mods.items():
        if name in ('sgzconstants',):
            continue
        for k, v in common.items():
            setattr(m, k, v)
        if hasattr(m, 'np'):
            m.np = np_shim
        if hasattr(m, 'zfpy'):
            m.zfpy = zfpy_shim
        if hasattr(m, 'struct'):
            m.struct = ShimStruct
        if hasattr(m, 'cf'):
            m.cf = ShimCF
        if hasattr(m, 'psutil'):
            m.psutil = ShimPsutil
    if extra:
        for (mname, attr), v in extra.items():
            setattr(mods[mname], attr, v)
    recache_classes(mods)
    return np_shim, zfpy_shim


# ---------------------------------------------------------------------------------- lru_cache stub
_ALL_CACHES = []


def sym_lru_cache(maxsize=128, typed=False):
    """functools.lru_cache contract, deterministic under symbolic arguments: a call hits iff its argument tuple
    equals a stored one (decided by ONE fork per stored entry), least-recently-used entry evicted beyond maxsize,
    cache_clear()/cache_info() provided.  Class-level use keeps the real sharing semantics (self is part of the key)."""
    if callable(maxsize) and not isinstance(maxsize, int):
        fn, maxsize = maxsize, 128
        return sym_lru_cache(maxsize)(fn)

    def deco(fn):
        entries = []     # [(args, kwargs_items, result)] most recently used last
        stats = [0, 0]

        def same(a, b):
            if len(a) != len(b):
                return False
            cs = []
            for x, y in zip(a, b):
                if x is y:
                    continue
                if isinstance(x, (SymInt,)) or isinstance(y, (SymInt,)):
                    if isinstance(x, (int, SymInt)) and isinstance(y, (int, SymInt)) and not isinstance(x, bool) and not isinstance(y, bool):
                        cs.append(x == y)
                        continue
                    return False
                if type(x) is not type(y) and not (isinstance(x, (int, float)) and isinstance(y, (int, float))):
                    return False
                try:
                    if not (x == y):
                        return False
                except Exception:
                    return False
            return b_and(*cs) if cs else True

        def wrapper(*args, **kw):
            kwi = tuple(sorted(kw.items()))
            for i, (a, k, res) in enumerate(entries):
                c = same(a + tuple(v for _, v in k), args + tuple(v for _, v in kwi)) if tuple(n for n, _ in k) == tuple(n for n, _ in kwi) else False
                if c is False:
                    continue
                if c is True or bool(c):
                    stats[0] += 1
                    entries.append(entries.pop(i))
                    return res
            stats[1] += 1
            res = fn(*args, **kw)
            if maxsize is None or maxsize > 0:
                entries.append((args, kwi, res))
                if maxsize is not None and len(entries) > maxsize:
                    entries.pop(0)
            return res

        def cache_clear():
            del entries[:]
            stats[0] = stats[1] = 0

        def cache_info():
            import collections
            return collections.namedtuple('CacheInfo', 'hits misses maxsize currsize')(stats[0], stats[1], maxsize, len(entries))
        wrapper.cache_clear = cache_clear
        wrapper.cache_info = cache_info
        wrapper.cache_parameters = lambda: dict(maxsize=maxsize, typed=typed)
        wrapper.__wrapped__ = fn
        wrapper.__name__ = getattr(fn, '__name__', 'cached')
        wrapper.__qualname__ = getattr(fn, '__qualname__', 'cached')
        wrapper.__doc__ = getattr(fn, '__doc__', None)
        wrapper._entries = entries
        _ALL_CACHES.append(wrapper)
        import functools as _ft

        class _Desc:
            """behave like a function attribute on a class (binds self)."""
        return _BoundableCache(wrapper)
    return deco


class _BoundableCache:
    def __init__(self, w):
        self._w = w
        self.cache_clear = w.cache_clear
        self.cache_info = w.cache_info
        self.cache_parameters = w.cache_parameters
        self.__wrapped__ = w.__wrapped__
        self.__name__ = w.__name__
        self.__qualname__ = w.__qualname__

    def __call__(self, *a, **k):
        return self._w(*a, **k)

    def __get__(self, obj, objtype=None):
        if obj is None:
            return self
        return _BoundCache(self, obj)


class _BoundCache:
    def __init__(self, bc, obj):
        self._bc, self._obj = bc, obj
        self.cache_clear = bc.cache_clear
        self.cache_info = bc.cache_info

    def __call__(self, *a, **k):
        return self._bc._w(self._obj, *a, **k)


def recache_classes(mods):
    """Re-decorate every functools.lru_cache-wrapped attribute of the repo's classes with the stub
    (same maxsize, same wrapped function object from the source on disk)."""
    import inspect
    n = 0
    for m in mods.values():
        for _, cls in inspect.getmembers(m, inspect.isclass):
            if getattr(cls, '__module__', '') != m.__name__:
                continue
            for name, attr in list(vars(cls).items()):
                if hasattr(attr, 'cache_parameters') and hasattr(attr, '__wrapped__') and not isinstance(attr, _BoundableCache):
                    ms = attr.cache_parameters()['maxsize']
                    setattr(cls, name, sym_lru_cache(maxsize=ms)(attr.__wrapped__))
                    n += 1
        if hasattr(m, 'lru_cache'):
            m.lru_cache = sym_lru_cache
    return n


def clear_all_caches():
    for w in _ALL_CACHES:
        w.cache_clear()


# ---------------------------------------------------------------------------------- threads / queues (data-flow mode)
import threading as _threading


class ThreadKill(BaseException):
    """Unwinds a stub worker thread at the end of a path."""


class PipelineStuck(Exception):
    """A blocking queue operation can never complete under the eager deterministic schedule."""


class Baton:
    """Strict hand-off scheduler: the producer (main) and the stub worker threads are real OS threads, but exactly
    one holds the baton at any time, so the symbolic engine is never used concurrently and the run is deterministic.
    Schedule (data-flow mode): a started thread runs until it blocks; put() hands the baton to a getter blocked on that
    queue; a blocked get() hands it back.  All interleavings are the subject of the C16 BMC, not of this stub."""
    def __init__(self):
        self.main_sem = _threading.Semaphore(0)
        self.threads = []
        self.current = None
        self.exc = None
        self.killed = False

    def _sem(self, t):
        return self.main_sem if t is None else t.sem

    def switch_to(self, t):
        me = self.current
        t.caller = me
        self.current = t
        t.sem.release()
        self._sem(me).acquire()
        self._after_resume(me)

    def _after_resume(self, me):
        if me is None:
            if self.exc is not None:
                e, self.exc = self.exc, None
                raise e
        elif self.killed or self.exc is not None:
            raise ThreadKill()

    def block(self, t):
        """t cannot proceed: give the baton back to whoever handed it over and wait."""
        c = t.caller
        self.current = c
        self._sem(c).release()
        t.sem.acquire()
        self._after_resume(t)

    def finished(self, t):
        c = t.caller
        self.current = c
        self._sem(c).release()

    def shutdown(self):
        self.killed = True
        for t in self.threads:
            if t.state in ('blocked', 'runnable'):
                t.caller = None
                self.current = t
                t.sem.release()
                self.main_sem.acquire()
        self.current = None
        for t in self.threads:
            t.os.join(timeout=5)


class ShimThread:
    def __init__(self, group=None, target=None, name=None, args=(), kwargs=None, daemon=None):
        self.target, self.args, self.kwargs = target, args, kwargs or {}
        self.daemon = daemon
        self.sem = _threading.Semaphore(0)
        self.state = 'new'
        self.caller = None
        self.os = None

    def start(self):
        b = CTX.baton
        b.threads.append(self)
        oplog('start', len(b.threads) - 1)
        self.state = 'runnable'
        self.os = _threading.Thread(target=self._run, daemon=True)
        self.os.start()
        b.switch_to(self)

    def _run(self):
        b = CTX.baton
        self.sem.acquire()
        try:
            if not b.killed:
                prof = getattr(_threading, '_verif_profile', None)
                if prof is not None:
                    sys.setprofile(prof)
                self.target(*self.args, **self.kwargs)
            self.state = 'finished'
        except ThreadKill:
            self.state = 'killed'
        except BaseException as e:
            self.state = 'crashed'
            if b.exc is None:
                b.exc = e
        finally:
            sys.setprofile(None)
            b.finished(self)

    def join(self, timeout=None):
        if self.state not in ('finished', 'killed', 'crashed'):
            raise PipelineStuck("join() on a thread that never returns")

    def is_alive(self):
        return self.state in ('runnable', 'blocked')


class ShimQueue:
    def __init__(self, maxsize=0):
        self.maxsize = maxsize
        self.items = []
        self.unfinished = 0
        self.getter = None
        self.put_log = []
        CTX.queues.append(self)

    def put(self, item, block=True, timeout=None):
        oplog('put', CTX.queues.index(self))
        pub = getattr(CTX, 'published', None)
        if pub is not None and CTX.baton.current is None:
            # (C16) identity of the arrays the calling thread hands over, by put number: a later write into one of them while
            # a consumer may still be reading it is a data race
            k = pub['count']
            pub['count'] = k + 1
            for obj in (item, getattr(item, 'base', None)):
                if obj is not None and hasattr(obj, 'shape'):
                    pub['ids'][id(obj)] = (k, obj)
        if self.maxsize and len(self.items) >= self.maxsize:
            raise PipelineStuck("put() on a full queue with no consumer able to run")
        self.items.append(item)
        self.unfinished += 1
        g = self.getter
        if g is not None:
            self.getter = None
            CTX.baton.switch_to(g)

    def get(self, block=True, timeout=None):
        b = CTX.baton
        oplog('get' if timeout is None and block else 'get_to', CTX.queues.index(self))
        if getattr(CTX, 'force_empty', False) and not self.items:
            import queue as _q
            raise _q.Empty()
        while not self.items:
            t = b.current
            if t is None:
                raise PipelineStuck("get() on an empty queue from the producer thread")
            self.getter = t
            t.state = 'blocked'
            b.block(t)
            t.state = 'runnable'
        return self.items.pop(0)

    def task_done(self):
        oplog('task_done', CTX.queues.index(self))
        if self.unfinished <= 0:
            raise ValueError('task_done() called too many times')
        self.unfinished -= 1

    def join(self):
        oplog('join', CTX.queues.index(self))
        if self.unfinished:
            raise PipelineStuck("join() with %d unfinished tasks and every consumer blocked" % self.unfinished)

    def qsize(self):
        return len(self.items)

    def empty(self):
        return not self.items

    def full(self):
        return bool(self.maxsize) and len(self.items) >= self.maxsize


# ---------------------------------------------------------------------------------- hashlib / pkg_resources
class ShimHash:
    def __init__(self, name):
        self.name = name
        self.updates = []
        CTX.hash_objects.append(self)

    def update(self, a):
        if isinstance(a, LazyArr):
            a = a.frozen()
        self.updates.append(a)

    def digest(self):
        return LazyBytes.of(TagSrc(('digest', id(self))), 20)

    def hexdigest(self):
        return self.digest().hex()


class ShimHashlib:
    @staticmethod
    def new(name, *a, **k):
        return ShimHash(name)

    @staticmethod
    def sha1(*a, **k):
        return ShimHash('sha1')


class _Dist:
    def __init__(self, version):
        self.version = version


class ShimPkgResources:
    @staticmethod
    def get_distribution(name):
        return _Dist(CTX.dist_version)


def install_writer_shims(mods, fs):
    """Extra shadowing for the conversion modules (threads, queues, hashing, distribution metadata, open())."""
    cu, cv = mods['conversion_utils'], mods['conversion']
    cu.Thread = ShimThread
    cu.Queue = ShimQueue
    cu.hashlib = ShimHashlib
    for _m in mods.values():
        if hasattr(_m, 'hashlib'):
            _m.hashlib = ShimHashlib
    cu.pkg_resources = ShimPkgResources
    cu.open = fs.open
    cv.open = fs.open
    mods['cropping'].open = fs.open
    mods['read'].open = fs.open

    class _Time:
        @staticmethod
        def time():
            return 0.0
    cu.time = _Time
    cv.time = _Time
    cu.progress_printer = lambda *a, **k: None

    class _Warn:
        @staticmethod
        def warn(*a, **k):
            CTX.notes.append('warning: %s' % (a[0] if a else ''))

        class catch_warnings:
            def __enter__(self):
                return self

            def __exit__(self, *a):
                return False

        @staticmethod
        def filterwarnings(*a, **k):
            pass
    cu.warnings = _Warn
    cv.warnings = _Warn
