"""Symbolic SEG-Y source: stub for the segyio handle the converters use, plus the byte layout of the same file for the
reduced-I/O reader (MinimalInlineReader).

Contract (validated against real segyio in shims/selftest_segy.py / replay): SEG-Y rev 1: 3600-byte file header,
`ext` extended textual headers of 3200 bytes, then traces of 240 + 4*ns bytes in file order.  For an inline-sorted
regular file trace t = i*n_xl + x carries inline number ilines[i], crossline number xlines[x]; iline[n] is the
(n_xl, ns) array of the traces with inline number n; trace[i] / header[i] accept negative ordinals; header[a:b] yields
the headers a..b-1; a header maps the 89 trace fields to integers.  Sample values carry provenance
('src', ...) = the native float segyio returns; the file's big-endian words are ('beword', ('segy-sample', t, k, 0));
segyio.tools.native() of format-1 words gives that same native value.
"""
import numpy as real_np
import z3
from symx.core import SymInt, is_sym, b_and, b_or, Unsupported, eng, mk, term, fx
from .lazybytes import LazyBytes, Src, TagSrc
from .lazyarr import LazyArr

TRACE_FIELDS = None


def trace_fields():
    global TRACE_FIELDS
    if TRACE_FIELDS is None:
        import segyio
        TRACE_FIELDS = [segyio.tracefield.TraceField(int(f)) for f in segyio.segy.Field(bytearray(240), kind='trace')]
    return TRACE_FIELDS


FIELD_WIDTH = {}


def field_width(f):
    if not FIELD_WIDTH:
        fs = [int(x) for x in trace_fields()]
        for a, b in zip(fs, fs[1:] + [241]):
            FIELD_WIDTH[a] = b - a if b - a in (2, 4) else 4
        FIELD_WIDTH[231] = 2
    return FIELD_WIDTH[int(f)]


class SegyModel:
    """Ground truth of the symbolic SEG-Y file."""
    def __init__(self, kind, ns, fmt=1, ext=0, n_il=None, n_xl=None, tracecount=None, il0=1, il_step=1, xl0=1, xl_step=1,
                 t0_ms=0, dt_ms=4, varying=None, consts=None, holes=(), name='in.sgy'):
        self.kind, self.ns, self.fmt, self.ext = kind, ns, fmt, ext
        self.n_il, self.n_xl = n_il, n_xl
        self.il0, self.il_step, self.xl0, self.xl_step = il0, il_step, xl0, xl_step
        self.t0_ms, self.dt_ms = t0_ms, dt_ms
        self.varying = dict(varying or {})     # field -> fn(trace ordinal) -> int/SymInt
        self.consts = dict(consts or {})       # field -> constant value
        self.holes = tuple(holes)              # grid positions (SymInt / int), strictly increasing, absent from the file
        self.name = name
        if kind == '2d':
            self.tracecount = tracecount
        else:
            self.tracecount = n_il * n_xl - len(self.holes)

    # grid position of trace ordinal t (irregular files: holes skipped)
    def grid_of(self, t):
        g = t
        for h in self.holes:
            g = mk(z3.If(term(h) <= term(g), term(g) + 1, term(g))) if (is_sym(h) or is_sym(g)) else (g + 1 if h <= g else g)
        return g

    def il_x_of(self, t):
        g = self.grid_of(t)
        return g // self.n_xl, g % self.n_xl

    def header_value(self, t, f):
        f = int(f)
        if f in self.varying:
            return self.varying[f](t)
        if self.kind != '2d':
            if f == 189:
                return self.il0 + self.il_x_of(t)[0] * self.il_step
            if f == 193:
                return self.xl0 + self.il_x_of(t)[1] * self.xl_step
        if f == 115:
            return self.consts.get(f, self.ns)
        if f == 117:
            if getattr(self, 'dt_us_fp', None) is not None:
                return self.dt_us_fp
            return self.consts.get(f, self.dt_ms * 1000)
        return self.consts.get(f, 0)

    def sample_prov(self, t, k):
        if self.kind == '2d':
            return ('src', t, k)
        i, x = self.il_x_of(t)
        return ('src', i, x, k)

    def data_start(self):
        return 3600 + 3200 * self.ext

    def trace_bytes(self):
        return 240 + 4 * self.ns


class ShimHeader:
    """One trace header (what segyio's Field gives the converters): mapping TraceField -> int."""
    def __init__(self, model, t):
        self.model, self.t = model, t
        self._vals = {}
        self._items = None

    def __getitem__(self, f):
        k = int(f)
        if k not in self._vals:
            self._vals[k] = self.model.header_value(self.t, k)
        return self._vals[k]

    def keys(self):
        return list(trace_fields())

    def __iter__(self):
        return iter(trace_fields())

    def items(self):
        if self._items is None:
            self._items = [(f, self[f]) for f in trace_fields()]
        return list(self._items)

    def values(self):
        return [v for _, v in self.items()]

    def __len__(self):
        return len(trace_fields())

    def __contains__(self, f):
        return int(f) in [int(x) for x in trace_fields()]

    def __eq__(self, o):
        if isinstance(o, (ShimHeader, BufferField)):
            for f in trace_fields():
                if not (self[f] == o[f]):
                    return False
            return True
        return NotImplemented

    __hash__ = None


class BufferField:
    """segyio.field.Field(buf, kind='trace') over the 240 header bytes the reduced-I/O reader cut out of the file."""
    def __init__(self, buf, kind='trace', **kw):
        if kind != 'trace':
            raise Unsupported("Field kind %s" % kind)
        self.buf = LazyBytes.wrap(buf).snapshot()

    def __getitem__(self, f):
        f = int(f)
        w = field_width(f)
        if self.buf.length != 240:
            if b_or(self.buf.length < f - 1 + w):
                raise KeyError(f)
        leaf = self.buf.resolve(f - 1, w)
        if isinstance(leaf[0], tuple) and leaf[0][0] == 'segy-trhdr':
            model, t = leaf[0][1], leaf[0][2]
            off = leaf[1]
            if not (off == f - 1):
                raise Unsupported("misaligned trace header bytes")
            return model.header_value(t, f)
        return ('badfield', leaf)

    def keys(self):
        return list(trace_fields())

    def __iter__(self):
        return iter(trace_fields())

    def items(self):
        return [(f, self[f]) for f in trace_fields()]

    def __eq__(self, o):
        if isinstance(o, (ShimHeader, BufferField)):
            for f in trace_fields():
                a, b = self[f], o[f]
                if isinstance(a, tuple) or isinstance(b, tuple):
                    return False
                if not (a == b):
                    return False
            return True
        return NotImplemented

    __hash__ = None


class SegyFileSrc(Src):
    """Bytes of the SEG-Y file: file header / trace header / sample words, per the rev-1 layout."""
    def __init__(self, model):
        self.model = model

    def resolve(self, off, n):
        m = self.model
        ds = m.data_start()
        if b_and(off + n <= 3600):
            return (('segy-filehdr', id(m)), off)
        if off < ds:
            return (('segy-exthdr', id(m)), off - 3600)
        tb = m.trace_bytes()
        tb = fx(tb)
        rel = off - ds
        t = rel // tb
        r = rel % tb
        if r < 240:
            if r + n > 240:
                return ('mixed',)
            # the trace ordinal is kept symbolic; the offset inside the header is what the field lookup needs
            return (('segy-trhdr', m, t), r)
        k = r - 240
        if b_or(k % 4 != 0, n != 4):
            return ('segy-bytes', t, k)
        return ('segy-sample', t, k // 4, 0)


def segy_store(model):
    from .env import FileStore
    total = model.data_start() + model.tracecount * model.trace_bytes()
    content = LazyBytes(total, [(0, total, SegyFileSrc(model), 0)], False)
    st = FileStore(content, model.name)
    return st


class _LineAccessor:
    def __init__(self, h, axis):
        self.h, self.axis = h, axis

    def __getitem__(self, no):
        m = self.h.model
        if isinstance(no, slice):
            raise Unsupported("line slices on the source")
        if hasattr(no, 'sym_scalar'):
            no = no.sym_scalar()
        if self.axis == 'il':
            d = no - m.il0
            if d % m.il_step != 0:
                raise KeyError(no)
            i = d // m.il_step
            if b_or(i < 0, i >= m.n_il):
                raise KeyError(no)
            return LazyArr((m.n_xl, m.ns), lambda idx: ('src', i, idx[0], idx[1]), 'prov', 'f4')
        d = no - m.xl0
        if d % m.xl_step != 0:
            raise KeyError(no)
        x = d // m.xl_step
        if b_or(x < 0, x >= m.n_xl):
            raise KeyError(no)
        return LazyArr((m.n_il, m.ns), lambda idx: ('src', idx[0], x, idx[1]), 'prov', 'f4')


class _TraceAccessor:
    def __init__(self, h):
        self.h = h

    def _norm(self, i):
        n = self.h.model.tracecount
        if hasattr(i, 'sym_scalar'):
            i = i.sym_scalar()
        if i < 0:
            i = i + n
        if b_or(i < 0, i >= n):
            raise IndexError("trace index out of range")
        return i

    def __getitem__(self, i):
        if isinstance(i, slice):
            raise Unsupported("trace slices on the source")
        m = self.h.model
        t = self._norm(i)
        return LazyArr((m.ns,), lambda idx: m.sample_prov(t, idx[0]), 'prov', 'f4')

    def __len__(self):
        return self.h.model.tracecount

    def __iter__(self):
        n = self.h.model.tracecount
        for t in range(int(n) if is_sym(n) else n):
            yield self[t]


class _HeaderAccessor(_TraceAccessor):
    def __getitem__(self, i):
        m = self.h.model
        if isinstance(i, slice):
            n = m.tracecount
            n = int(n) if is_sym(n) else n
            a = 0 if i.start is None else i.start
            b = n if i.stop is None else i.stop
            a = int(a) if is_sym(a) else a
            b = int(b) if is_sym(b) else b
            return [self._hdr(t) for t in range(*slice(a, b, i.step).indices(n))]
        if isinstance(i, int):
            c = self.h.__dict__.setdefault('_hdr_raw_cache', {})
            if i not in c:
                c[i] = self._hdr(fx(self._norm(i)))
            return c[i]
        return self._hdr(fx(self._norm(i)))

    def _hdr(self, t):
        if is_sym(t):
            return ShimHeader(self.h.model, t)
        c = self.h.__dict__.setdefault('_hdr_cache', {})
        if t not in c:
            c[t] = ShimHeader(self.h.model, t)
        return c[t]

    def __iter__(self):
        n = self.h.model.tracecount
        for t in range(int(n) if is_sym(n) else n):
            yield self._hdr(t)


class _Bin:
    def __init__(self, model):
        self.model = model

    def __getitem__(self, k):
        import segyio
        if int(k) == int(segyio.BinField.Format):
            return self.model.fmt
        if int(k) == int(segyio.BinField.Samples):
            return self.model.ns
        if int(k) == int(segyio.BinField.ExtendedHeaders):
            return self.model.ext
        return 0


class ShimSegyHandle:
    """What SeismicFile.open() returns for a SEG-Y file."""
    def __init__(self, model, filetype):
        m = self.model = model
        self.filetype = filetype
        self.filename = m.name
        self.tracecount = m.tracecount
        self.unstructured = m.kind != 'regular'
        self.structured = m.kind == 'regular'
        if m.kind == 'regular':
            self.ilines = LazyArr((m.n_il,), lambda idx: m.il0 + idx[0] * m.il_step, 'num', 'i4')
            self.xlines = LazyArr((m.n_xl,), lambda idx: m.xl0 + idx[0] * m.xl_step, 'num', 'i4')
            self.iline = _LineAccessor(self, 'il')
            self.xline = _LineAccessor(self, 'xl')
        else:
            self.ilines = None
            self.xlines = None
        if getattr(m, 'dt_us_fp', None) is not None:
            # segyio/open.py: dt = tools.dt(f) / 1000.0 ; samples = numpy.arange(n) * dt + t0   (binary64)
            from symx.symfloat import SymFloat, to_fp
            import z3 as _z3
            dt = SymFloat(_z3.fpDiv(_z3.RNE(), to_fp(m.dt_us_fp), _z3.FPVal(1000.0, _z3.Float64())))
            self.samples = LazyArr((m.ns,), lambda idx: dt * idx[0] + m.t0_ms, 'num', 'f8')
        else:
            self.samples = LazyArr((m.ns,), lambda idx: SymInt(term(m.t0_ms + idx[0] * m.dt_ms), True)
                                   if is_sym(m.t0_ms + idx[0] * m.dt_ms) else float(m.t0_ms + idx[0] * m.dt_ms), 'num', 'f8')
        self.trace = _TraceAccessor(self)
        self.header = _HeaderAccessor(self)
        self.bin = _Bin(m)
        self.closed = False

    def __enter__(self):
        return self

    def __exit__(self, *a):
        self.closed = True
        return False

    def close(self):
        self.closed = True


class ShimSegyioTools:
    @staticmethod
    def native(arr, **kw):
        """IBM (format 1) words -> native floats."""
        if not isinstance(arr, LazyArr):
            raise Unsupported("tools.native of %r" % type(arr))
        f = arr.frozen()
        return LazyArr(arr.shape, lambda idx: ('native', f.get(idx)), 'prov', 'f4')


def install_segy(mods, fs, model, Filetype):
    """Route SeismicFile.open / os.path.exists / Field / segyio.tools.native of the conversion modules to the model."""
    import segyio as real_segyio
    store = segy_store(model)
    fs.add(model.name, store)
    cv, cu = mods['conversion'], mods['conversion_utils']

    class _SeismicFile:
        @staticmethod
        def open(filename, file_type=None):
            if filename != model.name:
                raise FileNotFoundError(filename)
            return ShimSegyHandle(model, Filetype.SEGY if file_type is None else file_type)
    cv.SeismicFile = _SeismicFile

    class _Path:
        @staticmethod
        def exists(p):
            return p in fs.stores

        splitext = staticmethod(__import__('os').path.splitext)

    class _Os:
        path = _Path
    cv.os = _Os
    cu.Field = BufferField

    class _Segyio:
        tools = ShimSegyioTools
        BinField = real_segyio.BinField
        TraceField = real_segyio.TraceField
        tracefield = real_segyio.tracefield
        segy = real_segyio.segy
        field = real_segyio.field

        def __getattr__(self, n):
            return getattr(real_segyio, n)
    cu.segyio = _Segyio()
    return store
