"""Lazy n-d arrays carrying provenance (float voxels) or symbolic integers (header / axis values).

Stub for numpy.ndarray inside the analysed repo modules. Contract = numpy basic indexing:
Python slice normalisation (negative / out-of-range bounds, positive steps), integer indexing with
IndexError / negative wrap, views that write through to their base, slice assignment with
broadcasting (ValueError when shapes do not broadcast), value-copy semantics of the right-hand
side at assignment time, C-order reshape / flatten / tobytes, np.pad(..., 'edge').
Anything else raises Unsupported (work item 'not encoded').  Validated against real numpy in
shims/selftest.py (concrete mode).
"""
import numpy as real_np
import z3
from symx.core import SymInt, SymBool, is_sym, b_and, b_or, Unsupported, eng, mk, term, mkbool, fx
from .lazybytes import LazyBytes, Src, ZERO


def _isint(x):
    return isinstance(x, (int, SymInt, real_np.integer)) and not isinstance(x, bool)


def wrap32(v):
    """int -> value after astype(int32) (two's complement wrap)."""
    if isinstance(v, tuple):
        return v      # opaque stored int32 (provenance record): already 32 bits wide
    if is_sym(v):
        return mk(((v.t + 2 ** 31) % (2 ** 32)) - 2 ** 31)
    return ((int(v) + 2 ** 31) % (2 ** 32)) - 2 ** 31


class I32Src(Src):
    """Bytes of an int array (dtype width w)."""
    def __init__(self, arr, w):
        self.arr, self.w = arr, w

    def resolve(self, off, n):
        return ('i%d%s' % (8 * self.w, 'be' if getattr(self, 'be', False) else ''), self.arr, off // self.w, off % self.w)


class ArrBytesSrc(Src):
    """Bytes of a float array: opaque ('f32', arr, elem, k)."""
    def __init__(self, arr):
        self.arr = arr

    def resolve(self, off, n):
        return ('f32', self.arr, off // 4, off % 4)


def _norm_slice(k, n):
    """slice on an axis of length n -> (start, step, count) with positive step (numpy semantics)."""
    step = 1 if k.step is None else k.step
    if is_sym(step):
        step = int(step)
    if step == 0:
        raise ValueError("slice step cannot be zero")
    if step < 0:
        # only fully concrete negative-step slices are supported
        if is_sym(n) or is_sym(k.start) or is_sym(k.stop):
            raise Unsupported("negative step slice with symbolic bounds")
        r = range(*k.indices(n))
        return (r.start, r.step, len(r))
    a, b = k.start, k.stop
    for v in (a, b):
        if isinstance(v, float) or (isinstance(v, SymInt) and v.isfloat):
            raise TypeError("slice indices must be integers or None or have an __index__ method")
    if a is None:
        a = 0
    else:
        if a < 0:
            a = a + n
            if a < 0:
                a = 0
        if a > n:
            a = n
    if b is None:
        b = n
    else:
        if b < 0:
            b = b + n
            if b < 0:
                b = 0
        if b > n:
            b = n
    if b < a:
        b = a
    cnt = b - a
    if step != 1:
        cnt = (cnt + step - 1) // step
    return (a, step, cnt)


def _norm_int(i, n):
    if isinstance(i, float) or (isinstance(i, SymInt) and i.isfloat):
        raise IndexError("only integers, slices (`:`), ellipsis (`...`), numpy.newaxis (`None`) and integer or "
                         "boolean arrays are valid indices")
    if i < 0:
        i = i + n
    if b_or(i < 0, i >= n):
        raise IndexError("index out of bounds for axis with size")
    return i


class DStr(str):
    """dtype name that also compares equal to the numpy dtype / scalar type it names (arr.dtype == np.float32)."""
    def __eq__(self, o):
        if isinstance(o, str):
            return str.__eq__(self, o)
        try:
            return str.__eq__(self, _dtype_name(o))
        except Unsupported:
            return False

    def __ne__(self, o):
        return not self.__eq__(o)

    __hash__ = str.__hash__

    @property
    def itemsize(self):
        return {'i4': 4, 'i8': 8, 'f4': 4, 'f8': 8, 'i2': 2, 'bool': 1, '>f4': 4, '>i4': 4}[str(self)]

    @property
    def kind(self):
        return 'i' if str(self) == '>i4' else {'i': 'i', 'f': 'f', 'b': 'b', '>': 'f'}[str(self)[0]]


class NpSymInt(SymInt):
    """A symbolic numpy scalar (element of a numeric array): arithmetic stays a numpy scalar, so a result that
    simplifies to a literal is np.int64 / np.float64 (has .astype etc.) as with real numpy."""
    __slots__ = ()

    def _mk(self, t, isfloat=False):
        v = mk(t, isfloat)
        if isinstance(v, SymInt):
            return NpSymInt(v.t, v.isfloat)
        if isinstance(v, float):
            return real_np.float64(v)
        return real_np.int64(v)


def np_scalar(v, dtype):
    """Concrete element of a numeric lazy array as the numpy scalar real numpy would return."""
    if isinstance(v, bool):
        return real_np.bool_(v)
    if isinstance(v, int):
        return {'i4': real_np.int32, 'i8': real_np.int64, 'i2': real_np.int16, 'f8': real_np.float64, 'f4': real_np.float32}.get(str(dtype), real_np.int64)(v)
    if isinstance(v, float):
        return (real_np.float32 if str(dtype) == 'f4' else real_np.float64)(v)
    if isinstance(v, SymInt) and str(dtype) in ('f8', 'f4') and not v.isfloat:
        return NpSymInt(v.t, True)
    if isinstance(v, SymInt):
        return NpSymInt(v.t, v.isfloat)
    return v


class LazyArr:
    lazy = True

    def __init__(self, shape, getter=None, kind='prov', dtype='f4', base=None, imap=None, layers=None):
        self.shape = tuple(fx(d) for d in shape)
        self.getter = getter
        self.kind = kind            # 'prov' (opaque provenance elements) | 'num' (int / SymInt elements)
        self.dtype = DStr(dtype)
        self.base = base            # view: base array + imap
        self.imap = imap
        self.layers = layers if layers is not None else []

    # ------------------------------------------------------------ basic attributes
    @property
    def ndim(self):
        return len(self.shape)

    @property
    def size(self):
        n = 1
        for s in self.shape:
            n = n * s
        return n

    def sym_len(self):
        if not self.shape:
            raise TypeError("len() of unsized object")
        return self.shape[0]

    def __len__(self):
        return self.sym_len()

    def sym_isinstance(self, cls):
        classes = cls if isinstance(cls, tuple) else (cls,)
        if real_np.ndarray in classes:
            return True
        return None

    def sym_scalar(self):
        if self.size != 1:
            raise TypeError("only length-1 arrays can be converted to Python scalars")
        v = self.get(tuple(0 for _ in self.shape))
        return v

    # ------------------------------------------------------------ element access
    def get(self, idx):
        """Element at (already normalised, in-range) index tuple."""
        if self.base is not None:
            it = iter(idx)
            bidx = []
            for m in self.imap:
                if m[0] == 'i':
                    bidx.append(m[1])
                else:
                    q = next(it)
                    bidx.append(m[1] + q * m[2] if m[2] != 1 else m[1] + q)
            return self.base.get(tuple(bidx))
        for (spec, src, tshape) in reversed(self.layers):
            inside = True
            rel = []
            for q, sp in zip(idx, spec):
                if sp[0] == 'i':
                    c = (q == sp[1])
                else:
                    _, st, step, cnt = sp
                    r = q - st
                    if step == 1:
                        c = b_and(r >= 0, r < cnt)
                        rel.append(r)
                    else:
                        c = b_and(r >= 0, r % step == 0, r // step < cnt)
                        rel.append(r // step)
                if c is False:
                    inside = False
                    break
                inside = b_and(inside, c)
            if inside is False:
                continue
            if inside is True or bool(inside):
                if isinstance(src, LazyArr):
                    return src.get(_bcast_index(rel, tshape, src.shape))
                return src
        return self.getter(tuple(idx))

    def item(self, *a):
        return self.sym_scalar()

    # ------------------------------------------------------------ indexing
    def _parse_key(self, key):
        if not isinstance(key, tuple):
            key = (key,)
        if any(k is Ellipsis for k in key):
            i = [j for j, k in enumerate(key) if k is Ellipsis][0]
            nreal = sum(1 for k in key if k is not None and k is not Ellipsis)
            key = key[:i] + (slice(None),) * (self.ndim - nreal) + key[i + 1:]
        if any(k is None for k in key):
            raise Unsupported("newaxis indexing")
        if len(key) > self.ndim:
            raise IndexError("too many indices for array")
        key = key + (slice(None),) * (self.ndim - len(key))
        spec = []
        for k, n in zip(key, self.shape):
            if isinstance(k, slice):
                a, step, cnt = _norm_slice(k, n)
                spec.append(('s', a, step, cnt))
            elif _isint(k):
                spec.append(('i', _norm_int(k, n)))
            elif isinstance(k, LazyArr) and k.ndim == 0:
                spec.append(('i', _norm_int(k.sym_scalar(), n)))
            else:
                raise Unsupported("advanced indexing with %r" % type(k))
        return spec

    def _compose(self, spec):
        """spec relative to self -> (base array, spec relative to base)."""
        if self.base is None:
            return self, spec
        it = iter(spec)
        out = []
        for m in self.imap:
            if m[0] == 'i':
                out.append(m)
            else:
                sp = next(it)
                if sp[0] == 'i':
                    out.append(('i', m[1] + sp[1] * m[2]))
                else:
                    out.append(('s', m[1] + sp[1] * m[2], m[2] * sp[2], sp[3]))
        return self.base, out

    def __getitem__(self, key):
        if isinstance(key, LazyArr) and key.dtype == 'bool':
            return _mask_select(self, key)
        if isinstance(key, real_np.ndarray) and key.dtype == bool:
            return _mask_select(self, from_numpy(key))
        spec = self._parse_key(key)
        if all(sp[0] == 'i' for sp in spec):
            v = self.get(tuple(sp[1] for sp in spec))
            if self.kind == 'num':
                return np_scalar(v, self.dtype)
            return LazyArr((), lambda idx, v=v: v, self.kind, self.dtype)
        base, bspec = self._compose(spec)
        shape = tuple(sp[3] for sp in spec if sp[0] == 's')
        imap = [('i', sp[1]) if sp[0] == 'i' else ('s', sp[1], sp[2]) for sp in bspec]
        return LazyArr(shape, None, self.kind, self.dtype, base=base, imap=imap)

    def __setitem__(self, key, val):
        spec = self._parse_key(key)
        base, bspec = self._compose(spec)
        if MUT_HOOK[0] is not None:
            MUT_HOOK[0](base)      # (C16: a write into an array that was handed to another thread earlier)
        tshape = tuple(sp[3] for sp in spec if sp[0] == 's')
        if isinstance(val, real_np.ndarray):
            val = from_numpy(val)
        if isinstance(val, LazyArr):
            val = val.frozen()
            vs = list(val.shape)
            while len(vs) > len(tshape) and vs[0] == 1:
                vs = vs[1:]
                val = val._drop_leading()
            if len(vs) > len(tshape):
                raise ValueError("could not broadcast input array into shape")
            for a, b in zip(reversed(vs), reversed(tshape)):
                if not (a == b or a == 1):
                    raise ValueError("could not broadcast input array from shape into shape")
            if base.kind == 'num' and val.kind == 'num' and base.dtype == 'i4' and val.dtype not in ('i4', 'bool'):
                val = val.astype('i4')
        else:
            if isinstance(val, (list, tuple)) and not (isinstance(val, tuple) and val and isinstance(val[0], str)):
                raise Unsupported("assignment of a python sequence")      # (a tuple tagged with a str is a provenance record: opaque scalar)
            if base.kind == 'num' and base.dtype == 'i4' and _isint(val):
                if is_sym(val) or not (-2 ** 31 <= int(val) < 2 ** 31):
                    if is_sym(val):
                        if b_or(val < -2 ** 31, val >= 2 ** 31):
                            raise OverflowError("Python integer out of bounds for int32")
                    else:
                        raise OverflowError("Python integer out of bounds for int32")
        base.layers.append((bspec, val, tshape))

    def _drop_leading(self):
        src = self
        return LazyArr(self.shape[1:], lambda idx: src.get((0,) + tuple(idx)), self.kind, self.dtype)

    def frozen(self):
        """Value snapshot (what numpy would copy at this moment)."""
        if self.base is not None:
            return LazyArr(self.shape, None, self.kind, self.dtype, base=self.base.frozen(), imap=self.imap)
        return LazyArr(self.shape, self.getter, self.kind, self.dtype, layers=list(self.layers))

    # ------------------------------------------------------------ numpy-like methods
    def copy(self):
        f = self.frozen()
        return LazyArr(self.shape, lambda idx: f.get(idx), self.kind, self.dtype)

    def assign_all(self, val):
        self[(slice(None),) * self.ndim] = val

    def fill(self, val):
        self.assign_all(val)

    def astype(self, t, **kw):
        dt = _dtype_name(t)
        f = self.frozen()
        if self.kind == 'num':
            if dt == 'i4':
                return LazyArr(self.shape, lambda idx: wrap32(f.get(idx)), 'num', 'i4')
            if dt in ('i8', 'f8', 'f4'):
                def conv(idx, dt=dt):
                    v = f.get(idx)
                    if type(v).__name__ == 'SymFloat':      # binary64 <-> binary32 is a rounding step
                        return v.to_f32() if dt == 'f4' else type(v)(v.t) if v.f32 else v
                    return v
                return LazyArr(self.shape, conv, 'num', dt)
            raise Unsupported("astype(%s) of integer array" % dt)
        if dt in ('f4', 'f8'):
            return LazyArr(self.shape, lambda idx: f.get(idx), 'prov', dt)
        raise Unsupported("astype(%s) of sample array" % dt)

    def reshape(self, *shape, **kw):
        if len(shape) == 1 and isinstance(shape[0], (tuple, list)):
            shape = tuple(shape[0])
        if any((not is_sym(s)) and s == -1 for s in shape):
            known = 1
            for s in shape:
                if is_sym(s) or s != -1:
                    known = known * s
            shape = tuple(self.size // known if ((not is_sym(s)) and s == -1) else s for s in shape)
        n = 1
        for s in shape:
            n = n * s
        if n != self.size:
            raise ValueError("cannot reshape array of size into shape")
        f = self.frozen()
        oshape = self.shape

        def g(idx):
            lin = 0
            for q, s in zip(idx, shape):
                lin = lin * s + q
            return f.get(_unravel(lin, oshape))
        return LazyArr(shape, g, self.kind, self.dtype)

    def flatten(self):
        return self.reshape((self.size,))

    ravel = flatten

    def squeeze(self):
        keep = [i for i, s in enumerate(self.shape) if not (s == 1)]
        f = self.frozen()
        nd = self.ndim

        def g(idx):
            full = [0] * nd
            for k, q in zip(keep, idx):
                full[k] = q
            return f.get(tuple(full))
        return LazyArr(tuple(self.shape[i] for i in keep), g, self.kind, self.dtype)

    def tobytes(self):
        flat = self.flatten()
        w = {'i4': 4, 'i8': 8, 'f4': 4, 'f8': 8, 'i2': 2, '>i4': 4}[self.dtype]
        if self.kind == 'num':
            src = I32Src(flat, w)
            src.be = self.dtype == '>i4'      # non-native byte order: the bytes are the swapped ones
            return LazyBytes.of(src, flat.shape[0] * w)
        return LazyBytes.of(ArrBytesSrc(flat), flat.shape[0] * w)

    def __iter__(self):
        n = self.shape[0]
        for i in range(int(n) if is_sym(n) else n):
            yield self[i]

    # comparisons used by the repo: arr == scalar, arr != 0  (-> boolean LazyArr)
    def _cmp(self, o, op):
        f = self.frozen()
        if isinstance(o, LazyArr):
            if o.shape != self.shape:
                raise Unsupported("array comparison with broadcasting")
            g = o.frozen()
            return LazyArr(self.shape, lambda idx: _elem_cmp(f.get(idx), g.get(idx), op), 'num', 'bool')
        return LazyArr(self.shape, lambda idx: _elem_cmp(f.get(idx), o, op), 'num', 'bool')

    def __eq__(self, o):
        return self._cmp(o, 'eq')

    def __ne__(self, o):
        return self._cmp(o, 'ne')

    __hash__ = None

    def _arith(self, o, fn, name):
        if self.kind != 'num':
            raise Unsupported("arithmetic (%s) on sample arrays" % name)
        f = self.frozen()
        if isinstance(o, real_np.ndarray):
            o = from_numpy(o)
        if isinstance(o, LazyArr):
            if o.kind != 'num':
                raise Unsupported("arithmetic (%s) on sample arrays" % name)
            g = o.frozen()
            if g.shape == f.shape:
                return LazyArr(self.shape, lambda idx: fn(f.get(idx), g.get(idx)), 'num', self.dtype)
            if g.size == 1:
                o = g.sym_scalar()
            else:
                raise Unsupported("array arithmetic with broadcasting")
        if isinstance(o, float) and not o.is_integer():
            raise Unsupported("array arithmetic with a non-integral float")
        return LazyArr(self.shape, lambda idx: fn(f.get(idx), o), 'num', self.dtype)

    def __mul__(self, o):
        return self._arith(o, lambda a, b: a * b, 'mul')

    __rmul__ = __mul__

    def __add__(self, o):
        return self._arith(o, lambda a, b: a + b, 'add')

    __radd__ = __add__

    def __sub__(self, o):
        return self._arith(o, lambda a, b: a - b, 'sub')

    def __rsub__(self, o):
        return self._arith(o, lambda a, b: b - a, 'rsub')

    def __floordiv__(self, o):
        return self._arith(o, lambda a, b: a // b, 'floordiv')

    def __mod__(self, o):
        return self._arith(o, lambda a, b: a % b, 'mod')

    def __neg__(self):
        return self._arith(0, lambda a, b: -a, 'neg')

    def __abs__(self):
        return self._arith(0, lambda a, b: abs(a), 'abs')

    def _order(self, o, op):
        return self._arith(o, {'lt': lambda a, b: a < b, 'le': lambda a, b: a <= b, 'gt': lambda a, b: a > b,
                               'ge': lambda a, b: a >= b}[op], op)

    def __lt__(self, o):
        r = self._order(o, 'lt'); r.dtype = DStr('bool'); return r

    def __le__(self, o):
        r = self._order(o, 'le'); r.dtype = DStr('bool'); return r

    def __gt__(self, o):
        r = self._order(o, 'gt'); r.dtype = DStr('bool'); return r

    def __ge__(self, o):
        r = self._order(o, 'ge'); r.dtype = DStr('bool'); return r

    def _arg_extreme(self, smaller):
        """argmin / argmax of a 1-d integer array (first occurrence), by forking comparisons."""
        if self.kind != 'num' or self.ndim != 1:
            raise Unsupported("argmin/argmax of this array")
        n = self.shape[0]
        n = int(n) if is_sym(n) else n
        if n == 0:
            raise ValueError("attempt to get argmin of an empty sequence")
        best, bv = 0, self.get((0,))
        for i in range(1, n):
            v = self.get((i,))
            if (v < bv) if smaller else (v > bv):
                best, bv = i, v
        return best, bv

    def argmin(self, *a, **k):
        return self._arg_extreme(True)[0]

    def argmax(self, *a, **k):
        return self._arg_extreme(False)[0]

    def min(self, *a, **k):
        return self._arg_extreme(True)[1]

    def max(self, *a, **k):
        return self._arg_extreme(False)[1]

    def __bool__(self):
        if self.size == 1:
            return bool(self.sym_scalar())
        raise ValueError("The truth value of an array with more than one element is ambiguous")

    def __repr__(self):
        return "LazyArr(shape=%s, kind=%s, dtype=%s)" % (self.shape, self.kind, self.dtype)


def _elem_cmp(a, b, op):
    if isinstance(a, tuple) or isinstance(b, tuple):
        # provenance records: equal iff identical terms (decided by the harness, not here)
        raise Unsupported("comparison of sample values")
    return (a == b) if op == 'eq' else (a != b)


def _bcast_index(rel, tshape, sshape):
    """Index into src (shape sshape) for target-relative index rel (target shape tshape), numpy broadcasting."""
    d = len(tshape) - len(sshape)
    out = []
    for j, s in enumerate(sshape):
        if s == 1:
            out.append(0)
        else:
            out.append(rel[j + d])
    return tuple(out)


def _unravel(lin, shape):
    idx = []
    for s in reversed(shape[1:]):
        idx.append(lin % s)
        lin = lin // s
    idx.append(lin)
    return tuple(reversed(idx))


def _dtype_name(t):
    if isinstance(t, str):
        t0 = t
    else:
        try:
            t0 = real_np.dtype(t).str
        except TypeError:
            raise Unsupported("dtype %r" % (t,))
    m = {'intc': 'i4', 'int32': 'i4', '<i4': 'i4', 'i4': 'i4', 'int64': 'i8', '<i8': 'i8', 'i8': 'i8', 'int': 'i8',
         'float32': 'f4', '<f4': 'f4', 'f4': 'f4', 'float': 'f8', 'float64': 'f8', '<f8': 'f8', '>f4': '>f4',
         'int16': 'i2', '<i2': 'i2', 'bool': 'bool', '|b1': 'bool', '>i4': '>i4'}
    if t0 in m:
        return m[t0]
    raise Unsupported("dtype %r" % (t,))


def from_numpy(a):
    a = real_np.asarray(a)
    if a.dtype.kind in 'iub':
        dt = 'bool' if a.dtype.kind == 'b' else {2: 'i2', 4: 'i4', 8: 'i8'}.get(a.dtype.itemsize, 'i8')
        return LazyArr(a.shape, lambda idx: (bool(a[tuple(int(q) for q in idx)]) if dt == 'bool'
                                             else int(a[tuple(int(q) for q in idx)])), 'num', dt)
    return LazyArr(a.shape, lambda idx: ('np', id(a), tuple(idx)), 'prov', 'f4')


def _mask_select(arr, mask):
    """arr[mask] for 1-d arrays: the mask elements are evaluated one by one (a symbolic element forks)."""
    if arr.ndim != 1 or mask.ndim != 1:
        raise Unsupported("boolean-mask selection on n-d arrays")
    n = arr.shape[0]
    n = int(n) if is_sym(n) else n
    m = mask.shape[0]
    m = int(m) if is_sym(m) else m
    if n != m:
        raise IndexError("boolean index did not match indexed array along axis 0")
    keep = []
    for i in range(n):
        v = mask.get((i,))
        if isinstance(v, tuple):
            raise Unsupported("boolean mask built from opaque values")
        if v:
            keep.append(i)
    f = arr.frozen()
    return LazyArr((len(keep),), lambda idx: f.get((_pick(keep, idx[0]),)), arr.kind, arr.dtype)


def _pick(lst, i):
    """lst[i] for a concrete list and a possibly symbolic index (forks over the feasible positions)."""
    if not is_sym(i):
        return lst[i]
    for k, v in enumerate(lst):
        if i == k:
            return v
    raise IndexError("index out of bounds")


# ---------------------------------------------------------------------- numpy module shim
class _ShimScalarType:
    """np.int32 / np.intc / np.int64 as a callable that keeps symbolic values symbolic (two's-complement wrap)."""
    def __init__(self, real, bits):
        self.real, self.bits = real, bits
        self.dtype = real_np.dtype(real)

    def __call__(self, v=0):
        if hasattr(v, 'sym_scalar'):
            v = v.sym_scalar()
        if is_sym(v):
            if self.bits == 32:
                v = wrap32(v)
            return NpSymInt(v.t, False) if is_sym(v) else self.real(v)
        return self.real(v)

    def __eq__(self, o):
        return o is self or o == self.real

    def __hash__(self):
        return hash(self.real)

    def __repr__(self):
        return repr(self.real)


class ShimNP:
    """Stands in for `np` inside repo modules. Lazy/symbolic arguments -> lazy results; otherwise real numpy."""
    float32 = real_np.float32
    int32 = _ShimScalarType(real_np.int32, 32)
    intc = _ShimScalarType(real_np.intc, 32)
    ndarray = real_np.ndarray

    def __getattr__(self, n):
        return getattr(real_np, n)

    @staticmethod
    def _lazy(*xs):
        for x in xs:
            if isinstance(x, (LazyArr, SymInt)) or type(x).__name__ == 'SymFloat':
                return True
            if isinstance(x, (tuple, list)) and ShimNP._lazy(*x):
                return True
        return False

    def zeros(self, shape, dtype=float, **kw):
        if not self._lazy(shape) and not ALWAYS_LAZY[0]:
            return real_np.zeros(shape, dtype=dtype, **kw)
        if _isint(shape):
            shape = (shape,)
        for d in shape:
            if d < 0:
                raise ValueError("negative dimensions are not allowed")
        dt = _dtype_name(dtype) if not isinstance(dtype, str) or dtype != 'float32' else 'f4'
        if dt in ('i4', 'i8'):
            return LazyArr(shape, lambda idx: 0, 'num', dt)
        return LazyArr(shape, lambda idx: ZERO, 'prov', dt)

    def pad(self, a, pads, mode='constant', **kw):
        if not isinstance(a, LazyArr):
            if not self._lazy(pads):
                return real_np.pad(a, pads, mode, **kw)
            a = from_numpy(a)
        if mode != 'edge':
            raise Unsupported("np.pad mode %s" % mode)
        f = a.frozen()
        shape = []
        for s, p in zip(a.shape, pads):
            if not (p[0] == 0):
                raise Unsupported("np.pad with leading pad")
            if p[1] < 0:
                raise ValueError("index can't contain negative values")
            shape.append(s + p[1])
        ashape = a.shape

        def g(idx):
            src = []
            for q, n in zip(idx, ashape):
                if q > n - 1:
                    q = n - 1
                src.append(q)
            return f.get(tuple(src))
        for s in ashape:
            if s == 0:
                raise ValueError("can't extend empty axis using modes other than 'constant' or 'empty'")
        return LazyArr(shape, g, a.kind, a.dtype)

    def rint(self, a, *x, **kw):
        if type(a).__name__ == 'SymFloat':
            return a.rint()
        if isinstance(a, LazyArr):
            f = a.frozen()
            return LazyArr(a.shape, lambda idx: (lambda v: v.rint() if type(v).__name__ == 'SymFloat' else v)(f.get(idx)), a.kind, a.dtype)
        if is_sym(a):
            return a
        return real_np.rint(a, *x, **kw)

    def round(self, a, decimals=0, **kw):
        if decimals == 0 and (type(a).__name__ == 'SymFloat' or isinstance(a, LazyArr) or is_sym(a)):
            return self.rint(a)
        if type(a).__name__ == 'SymFloat' or isinstance(a, LazyArr):
            raise Unsupported("np.round(decimals != 0) of a lazy value")
        return real_np.round(a, decimals, **kw)

    around = round

    def asarray(self, a, dtype=None, **kw):
        if isinstance(a, LazyArr):
            return a if dtype is None else a.astype(dtype)
        if type(a).__name__ == 'SymFloat':
            return LazyArr((), lambda idx: a, 'num', 'f8')
        if is_sym(a):
            return LazyArr((), lambda idx: a, 'num', 'i8')
        return real_np.asarray(a, dtype=dtype, **kw)

    def array(self, a, dtype=None, **kw):
        if isinstance(a, LazyArr):
            return a.copy() if dtype is None else a.astype(dtype)
        if type(a).__name__ == 'SymFloat':
            return LazyArr((), lambda idx: a, 'num', 'f8')
        if is_sym(a):
            return LazyArr((), lambda idx: a, 'num', 'i8')
        return real_np.array(a, dtype=dtype, **kw)

    def expand_dims(self, a, axis):
        if not isinstance(a, LazyArr):
            return real_np.expand_dims(a, axis)
        f = a.frozen()
        if axis < 0:
            axis = axis + a.ndim + 1
        shape = a.shape[:axis] + (1,) + a.shape[axis:]
        return LazyArr(shape, lambda idx: f.get(tuple(idx[:axis]) + tuple(idx[axis + 1:])), a.kind, a.dtype)

    def squeeze(self, a, **kw):
        if not isinstance(a, LazyArr):
            return real_np.squeeze(a, **kw)
        return a.squeeze()

    def broadcast_to(self, a, shape):
        if not isinstance(a, LazyArr):
            if not self._lazy(shape):
                return real_np.broadcast_to(a, shape)
            a = from_numpy(real_np.asarray(a))
        f = a.frozen()
        ashape = a.shape
        return LazyArr(tuple(shape), lambda idx: f.get(_bcast_index(list(idx), tuple(shape), ashape)), a.kind, a.dtype)

    def arange(self, *a, **kw):
        if not self._lazy(*a) and not (ALWAYS_LAZY[0] and len(a) == 1 and not kw):
            return real_np.arange(*a, **kw)
        if len(a) == 1:
            start, stop, step = 0, a[0], 1
        elif len(a) == 2:
            start, stop, step = a[0], a[1], 1
        else:
            start, stop, step = a
        if any(type(v).__name__ == 'SymFloat' for v in (start, stop, step)):
            return _arange_fp(start, stop, step)
        isf = False
        vals = []
        for v in (start, stop, step):
            if isinstance(v, float):
                if not v.is_integer():
                    raise Unsupported("non-integral float arange with symbolic arguments")
                v = int(v)
                isf = True
            elif is_sym(v) and v.isfloat:
                v = SymInt(v.t, False)
                isf = True
            vals.append(v)
        start, stop, step = vals
        if step == 0:
            raise ZeroDivisionError("division by zero")
        # numpy: length = ceil((stop - start) / step), clipped at 0
        if step > 0:
            n = (stop - start + step - 1) // step
        else:
            n = (start - stop + (-step) - 1) // (-step)
        if n < 0:
            n = 0
        return LazyArr((n,), lambda idx: start + idx[0] * step, 'num', 'f8' if isf else 'i8')

    def frombuffer(self, buf, dtype=float, **kw):
        if not isinstance(buf, LazyBytes):
            return real_np.frombuffer(buf, dtype=dtype, **kw)
        return frombuffer(buf, dtype)

    def array_equal(self, a, b):
        if not isinstance(a, LazyArr) and not isinstance(b, LazyArr):
            return real_np.array_equal(a, b)
        return ARRAY_EQUAL_HOOK[0](a, b)

    def all(self, a, **kw):
        if not isinstance(a, LazyArr):
            return real_np.all(a, **kw)
        return NP_ALL_HOOK[0](a)

    def where(self, c, *a):
        if not isinstance(c, LazyArr):
            return real_np.where(c, *a)
        if a:
            raise Unsupported("np.where with 3 arguments")
        return (WhereResult(c),)

    def dtype(self, x):
        return real_np.dtype(x)

    def abs(self, a, **kw):
        if isinstance(a, (LazyArr, SymInt)):
            return abs(a)
        return real_np.abs(a, **kw)

    absolute = abs

    def argmin(self, a, **kw):
        if isinstance(a, LazyArr):
            return a.argmin()
        return real_np.argmin(a, **kw)

    def argmax(self, a, **kw):
        if isinstance(a, LazyArr):
            return a.argmax()
        return real_np.argmax(a, **kw)

    def min(self, a, **kw):
        if isinstance(a, LazyArr):
            return a.min()
        return real_np.min(a, **kw)

    def max(self, a, **kw):
        if isinstance(a, LazyArr):
            return a.max()
        return real_np.max(a, **kw)

    amin, amax = min, max

    def isclose(self, a, b, rtol=1e-05, atol=1e-08, **kw):
        """|a - b| <= atol + rtol*|b| for integer-valued scalars: exact in rationals when rtol, atol are the defaults."""
        if not self._lazy(a, b):
            return real_np.isclose(a, b, rtol=rtol, atol=atol, **kw)
        if isinstance(a, LazyArr) or isinstance(b, LazyArr):
            if isinstance(a, LazyArr) and a.size == 1:
                a = a.sym_scalar()
            if isinstance(b, LazyArr) and b.size == 1:
                b = b.sym_scalar()
            if isinstance(a, LazyArr) or isinstance(b, LazyArr):
                # elementwise (array vs scalar, or two arrays of one shape): a boolean lazy array
                if (rtol, atol) != (1e-05, 1e-08):
                    raise Unsupported("np.isclose with non-default tolerances")
                arr, other, arr_is_a = (a, b, True) if isinstance(a, LazyArr) else (b, a, False)
                if arr.kind != 'num' or (isinstance(other, LazyArr) and (other.kind != 'num' or other.shape != arr.shape)):
                    raise Unsupported("np.isclose on sample arrays / with broadcasting")
                f = arr.frozen()
                g = other.frozen() if isinstance(other, LazyArr) else None

                def elem(idx):
                    x = f.get(idx)
                    y = g.get(idx) if g is not None else other
                    return self.isclose(x, y) if arr_is_a else self.isclose(y, x)
                return LazyArr(arr.shape, elem, 'num', 'bool')
        if (rtol, atol) != (1e-05, 1e-08):
            raise Unsupported("np.isclose with non-default tolerances")
        for v in (a, b):
            if isinstance(v, float) and not v.is_integer():
                raise Unsupported("np.isclose on a non-integral float")
        a = int(a) if isinstance(a, float) else a
        b = int(b) if isinstance(b, float) else b
        d = a - b
        d = abs(d)
        # 10^8 * |a-b| <= 1 + 10^3 * |b|
        return (100000000 * d) <= (1 + 1000 * abs(b))

    def allclose(self, a, b, **kw):
        if not self._lazy(a, b):
            return real_np.allclose(a, b, **kw)
        return self.isclose(a, b, **kw)


ALWAYS_LAZY = [False]
MUT_HOOK = [None]


def _arange_fp(start, stop, step):
    """numpy.arange for binary64 arguments: length = ceil((stop - start) / step) evaluated in double precision (clipped
    at 0); element 0 = start, element 1 = start + step, element k >= 2 = start + k * delta with
    delta = (start + step) - start, as numpy's DOUBLE_fill computes it."""
    from symx.symfloat import SymFloat, to_fp, fp_ite
    import z3 as _z3
    rne = _z3.RNE()
    a, b, c = to_fp(start), to_fp(stop), to_fp(step)
    q = SymFloat(_z3.fpDiv(rne, _z3.fpSub(rne, b, a), c))
    n = q.ceil_int()
    if n < 0:
        n = 0
    first = SymFloat(a)
    nxt = SymFloat(_z3.fpAdd(rne, a, c))
    delta = nxt - first

    def elem(idx):
        k = idx[0]
        if not is_sym(k):
            return first if k == 0 else nxt if k == 1 else first + delta * k
        return fp_ite(k == 0, first, fp_ite(k == 1, nxt, first + delta * k))
    return LazyArr((n,), elem, 'num', 'f8')


def _array_equal_default(a, b):
    raise Unsupported("np.array_equal on lazy arrays")


def _np_all_default(a):
    raise Unsupported("np.all on lazy arrays")


ARRAY_EQUAL_HOOK = [_array_equal_default]
NP_ALL_HOOK = [_np_all_default]


class WhereResult:
    """np.where(boolarr)[0]: lazily, [0] = first true index (IndexError if none)."""
    def __init__(self, c):
        self.c = c

    def __getitem__(self, k):
        if not (k == 0):
            raise Unsupported("np.where(...)[k>0]")
        c = self.c
        if c.ndim != 1:
            raise Unsupported("np.where on n-d array")
        n = c.shape[0]
        n = int(n) if is_sym(n) else n
        for i in range(n):
            if c.get((i,)):
                return i
        raise IndexError("index 0 is out of bounds for axis 0 with size 0")


def frombuffer(buf, dtype):
    dt = _dtype_name(dtype) if not isinstance(dtype, real_np.dtype) else _dtype_name(dtype.str)
    w = {'i4': 4, 'f4': 4, '>f4': 4, 'i8': 8}[dt]
    if buf.length % w != 0:
        raise ValueError("buffer size must be a multiple of element size")
    n = buf.length // w
    snap = buf.snapshot()
    if dt == 'i4':
        return LazyArr((n,), lambda idx: FROMBUF_I32[0](snap, idx[0]), 'num', 'i4')
    return LazyArr((n,), lambda idx: ('word', snap.resolve(idx[0] * w, w)), 'prov', dt)


def frombuf_i32_default(buf, j):
    leaf = buf.resolve(4 * j, 4)
    return i32_of_leaf(leaf)


def i32_of_leaf(leaf):
    kind = leaf[0]
    if kind == 'zero':
        return 0
    if kind == 'i32':
        arr, elem, k = leaf[1], leaf[2], leaf[3]
        if k == 0:
            return arr.get((elem,))
        raise Unsupported("misaligned int32 read")
    if kind == 'i64':
        arr, elem, k = leaf[1], leaf[2], leaf[3]
        v = arr.get((elem,))
        if k == 0:
            return wrap32(v)
        if k == 4:
            return wrap32((v - wrap32(v)) // (2 ** 32)) if True else None
        raise Unsupported("misaligned int64 read")
    if kind == 'const':
        import struct
        off = leaf[2]
        off = int(off) if is_sym(off) else off
        return struct.unpack('<i', leaf[1][off:off + 4])[0]
    if kind == 'field':
        from .lazybytes import unpack_leaf
        return unpack_leaf('<i', leaf, 4)
    return ('badint', leaf)


FROMBUF_I32 = [frombuf_i32_default]
