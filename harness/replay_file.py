"""Re-run a recorded counterexample: python -m harness.replay_file <Cxx> <cex.json>"""
import sys
import json
from .replayer import replay


def main():
    with open(sys.argv[2]) as f:
        cex = json.load(f)
    req = cex.get('replay', {}).get('request')
    if not req:
        print("no replay request recorded in %s" % sys.argv[2])
        return 3
    out = replay(req)
    print(json.dumps({k: v for k, v in out.items() if k != 'request'}, indent=1, default=str))
    if out.get('reproduced'):
        print("VIOLATION property=%s replay=%s" % (sys.argv[1], sys.argv[2]))
        return 1
    return 0


if __name__ == '__main__':
    sys.exit(main())
