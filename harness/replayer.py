"""Spawn replay/run.py in a clean interpreter (real numpy / zfpy / segyio, unshadowed repo modules)."""
import os
import json
import subprocess
import tempfile
from .common import ROOT


def replay(req, timeout=600):
    fd, path = tempfile.mkstemp(prefix='verif-req-', suffix='.json')
    try:
        with os.fdopen(fd, 'w') as f:
            json.dump(req, f, default=str)
        env = dict(os.environ)
        env['PYTHONPATH'] = ROOT
        p = subprocess.run(['/venv/bin/python', '-m', 'replay.run', path], cwd=ROOT, env=env, capture_output=True,
                           text=True, timeout=timeout)
        for line in p.stdout.splitlines():
            if line.startswith('REPLAY-RESULT '):
                out = json.loads(line[len('REPLAY-RESULT '):])
                out['request'] = req
                return out
        return dict(reproduced=False, detail='replay produced no result: rc=%s %s' % (p.returncode, (p.stderr or '')[-400:]),
                    request=req, harness_error=True)
    finally:
        try:
            os.unlink(path)
        except OSError:
            pass
