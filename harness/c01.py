"""C01 write-then-read fidelity (and the writer-side parts of C20): see harness/writers.py."""
import sys
import time
from .common import *
from . import writers
from .runner import run_items, finish


def main(prop, tier, only=None):
    t0 = time.time()
    items = writers.items_for(prop, tier)
    if only:
        items = [i for i in items if only in i.desc]
    results = run_items(items)
    return finish(prop, tier, t0, results, items, writers.ASSUMPTIONS, writers.BOUNDS, replay_fn=writers.replay_candidate)


if __name__ == '__main__':
    sys.exit(main(sys.argv[1], sys.argv[2] if len(sys.argv) > 2 else 'quick', sys.argv[3] if len(sys.argv) > 3 else None))
