"""C19 configuration soundness: define_blockshape_3d / _2d on a symbolic blockshape entry.

For every bits_per_voxel of the property's list and every pair of the two other blockshape entries from a finite set
(all powers of two up to 8192, -1, and near-misses), the third entry is a SYMBOLIC integer in {-1} u [1, 8192].
Obligation: if the real function returns, the resolved (rate, blockshape) satisfies the validity predicate of the
specification (rate in {1/4..32}, power-of-two dims >= 4, first dim 1 only for 2D, dims x rate = 32768 bits); and
every valid fully-specified or one-free setting returns normally with exactly that layout.
(The second half of the property - each valid layout yields a faithful file - is the thorough tier of C01-C03.)
"""
import sys
import time

from .common import *
from .runner import Item, run_items, finish
from .replayer import replay
from symx.core import implied, b_not, SymBool, Infeasible, SymRat

ASSUMPTIONS = [
    "blockshape entries: one symbolic integer in {-1} u [1, 8192], the other two enumerated from {-1, 1, 2, 3, 4, 5, 6, 8, 12, 16, 32, 64, 128, 256, 512, 1024, 2048, 4096, 8192}; product of the given entries <= 2^17",
    "bits_per_voxel enumerated: integers -16..-2, -1, 1..32, floats 0.25 0.5 0.75 1.5 3.0, strings of each kind",
    "validity predicate taken from docs/file-specification.md and the property text, not from the code",
]

S_SET = [-1, 1, 2, 3, 4, 5, 6, 8, 12, 16, 32, 64, 128, 256, 512, 1024, 2048, 4096, 8192]
RATES = [0.25, 0.5, 1, 2, 4, 8, 16, 32]


def bpv_values(tier):
    vals = [-16, -8, -4, -3, -2, -1, 1, 2, 3, 4, 5, 6, 7, 8, 12, 16, 24, 32, 0.25, 0.5, 0.75, 1.5, 3.0, 64, "4", "-2", "0.5", "-1", "3"]
    if tier != 'quick':
        vals += list(range(-15, -1)) + list(range(9, 32)) + [0.125, 1.0, 2.0, 33, 0, "0.25", "8", "-4"]
    out = []
    for v in vals:
        if v not in out or isinstance(v, str):
            out.append(v)
    return out


def pow2_ge4(v):
    return b_or(*[v == (1 << k) for k in range(2, 14)])


def valid_layout(rate, bs, is2d):
    """SymBool/bool: (rate, bs) is a valid layout."""
    if isinstance(rate, SymRat):
        rate_ok = b_or(*[rate == r for r in RATES])
    else:
        rate_ok = any(rate == r for r in RATES) if not is_sym(rate) else b_or(*[rate == r for r in RATES])
    dims_ok = b_and(pow2_ge4(bs[1]), pow2_ge4(bs[2]), (bs[0] == 1) if is2d else pow2_ge4(bs[0]))
    # product * rate == 32768 bits
    prod = bs[0] * bs[1] * bs[2]
    if isinstance(rate, SymRat):
        size_ok = (rate * prod) == 32768
    elif isinstance(rate, float):
        num, den = rate.as_integer_ratio()
        size_ok = prod * num == 32768 * den
    else:
        size_ok = prod * rate == 32768
    if is2d and not isinstance(rate, SymRat):
        rate_ok = b_and(rate_ok, rate >= 1)
    return b_and(rate_ok, dims_ok, size_ok)


def item_fn(bpv, is2d):
    mm = mods()
    U = mm['utils']
    f = U.define_blockshape_2d if is2d else U.define_blockshape_3d

    def fn():
        E = eng()
        shenv.reset_ctx()
        pos = E.fresh('sym_pos', 1 if is2d else 0, 2)
        pos = int(pos)
        others = [k for k in range(3) if k != pos]
        if is2d:
            o1 = 1
            k2 = [k for k in others if k != 0][0]
            i2 = E.fresh('o2_idx', 0, len(S_SET) - 1)
            o2 = S_SET[int(i2)]
            fixed = {0: 1, k2: o2}
        else:
            i1 = E.fresh('o1_idx', 0, len(S_SET) - 1)
            i2 = E.fresh('o2_idx', 0, len(S_SET) - 1)
            fixed = {others[0]: S_SET[int(i1)], others[1]: S_SET[int(i2)]}
        s = E.fresh('s', -1, 8192)
        E.assume(s != 0)
        prod = 1
        for v in fixed.values():
            if v != -1:
                prod *= v
        if prod > 2 ** 17:
            raise Infeasible()
        bs_in = [None, None, None]
        bs_in[pos] = s
        for k, v in fixed.items():
            bs_in[k] = v
        bs_in = tuple(bs_in)
        label = 'define_blockshape_%s(%r, .)' % ('2d' if is2d else '3d', bpv)
        try:
            with Quiet():
                rate, bs = f(bpv, bs_in)
        except (ValueError, AssertionError, ZeroDivisionError, TypeError, OverflowError) as e:
            E.reached(label + ':rejected')
            # a valid setting must be accepted: valid <=> exactly zero or one free parameter and the given ones fit a valid layout
            E.check(b_not(is_valid_request(bpv, bs_in, is2d)), label + ': a valid setting was rejected (%s)' % type(e).__name__)
            return
        E.reached(label + ':returned')
        ok = valid_layout(rate, bs, is2d)
        E.check(ok, label + ': an accepted setting resolves to a valid layout (rate in 1/4..32, power-of-two dims >= 4, dims x rate = 32768 bits)')
        # and it is the layout the caller asked for
        same = True
        for k in range(3):
            if not (isinstance(bs_in[k], int) and bs_in[k] == -1):
                same = b_and(same, b_or(bs_in[k] == -1, bs[k] == bs_in[k]))
        E.check(same, label + ': the given blockshape entries are kept')
    return fn


def norm_bpv(bpv):
    v = float(bpv) if isinstance(bpv, str) else bpv
    if v == -1:
        return None
    if v < -1:
        return 1 / -v
    return v


def is_valid_request(bpv, bs_in, is2d):
    """The request determines a valid layout: at most one free parameter among (bpv, dims) and the rest fits."""
    rate = norm_bpv(bpv)
    free = [k for k in range(3) if isinstance(bs_in[k], int) and bs_in[k] == -1]
    sym_k = [k for k in range(3) if is_sym(bs_in[k])]
    conds = []
    # the symbolic entry may itself be -1: split
    s = bs_in[sym_k[0]] if sym_k else None
    alts = []
    for s_free in ((True, False) if s is not None else (False,)):
        c = True
        if s is not None:
            c = (s == -1) if s_free else (s != -1)
        nfree = len(free) + (1 if s_free else 0) + (1 if rate is None else 0)
        if nfree > 1:
            continue
        dims = [None if (k in free or (s_free and k in sym_k)) else bs_in[k] for k in range(3)]
        if nfree == 0:
            alts.append(b_and(c, valid_layout(rate, dims, is2d)))
        elif rate is None:
            # rate free: dims must be valid and 32768/prod a valid rate
            prod = dims[0] * dims[1] * dims[2]
            ok = b_or(*[b_and(prod * (int(r * 4)) == 32768 * 4, True if (not is2d or r >= 1) else False) for r in RATES])
            dims_ok = b_and(pow2_ge4(dims[1]), pow2_ge4(dims[2]), (dims[0] == 1) if is2d else pow2_ge4(dims[0]))
            alts.append(b_and(c, ok, dims_ok))
        else:
            if not any(rate == r for r in RATES) or (is2d and rate < 1):
                continue
            k = dims.index(None)
            rest = 1
            rest_ok = True
            for j in range(3):
                if j != k:
                    rest = rest * dims[j]
                    rest_ok = b_and(rest_ok, (dims[j] == 1) if (is2d and j == 0) else pow2_ge4(dims[j]))
            num, den = float(rate).as_integer_ratio()
            # free dim = 32768*den / (rest*num) must be a power of two >= 4 (or 1 for the 2D first entry, which is never free)
            ok = b_or(*[rest * num * (1 << e) == 32768 * den for e in range(2, 14)])
            if is2d and k == 0:
                ok = False
            alts.append(b_and(c, rest_ok, ok))
    return b_or(*alts) if alts else False


def items_for(tier):
    items = []
    for is2d in (False, True):
        for bpv in bpv_values(tier):
            it = Item('blockshape|%s|bpv=%r' % ('2d' if is2d else '3d', bpv), (lambda bpv=bpv, is2d=is2d: item_fn(bpv, is2d)),
                      timeout_s=250 if tier == 'quick' else 600, solver_ms=10000)
            it.meta = dict(bpv=bpv, is2d=is2d)
            items.append(it)
    return items


def replay_candidate(it, c):
    return replay(dict(kind='blockshape', bpv=it.meta['bpv'], is2d=it.meta['is2d'], model=c['model'], S=S_SET, obligation=c['msg'],
                       handlers=['replay.blockshape']))


def main(prop, tier, only=None):
    t0 = time.time()
    items = items_for(tier)
    if only:
        items = [i for i in items if only in i.desc]
    results = run_items(items)
    bounds = dict(symbolic_entry='{-1} u [1, 8192]', other_entries=S_SET, bits_per_voxel=[repr(b) for b in bpv_values(tier)])
    return finish(prop, tier, t0, results, items, ASSUMPTIONS, bounds, replay_fn=replay_candidate)


if __name__ == '__main__':
    sys.exit(main('C19', sys.argv[1] if len(sys.argv) > 1 else 'quick', sys.argv[2] if len(sys.argv) > 2 else None))
