"""Work-item runner, verdict protocol, evidence writer (shared by all checks)."""
import os
import sys
import json
import time
import traceback
import multiprocessing as mp

from .common import ROOT, Engine
REPO = os.environ.get('VERIF_REPO', '/repo')      # the tree under analysis (default: /repo itself)
import symx.core as core

EXIT_OK, EXIT_VIOLATION, EXIT_HARNESS = 0, 1, 3


def trace_functions(fn):
    """Run fn() once recording the repo functions entered (co_qualname)."""
    seen = set()

    def prof(frame, event, arg):
        if event == 'call':
            co = frame.f_code
            if co.co_filename.startswith(REPO + '/'):
                seen.add(os.path.basename(co.co_filename)[:-3] + '.' + co.co_qualname)
    sys.setprofile(prof)
    try:
        fn()
    finally:
        sys.setprofile(None)
    return seen


class Item:
    """A unit of symbolic exploration: `make()` returns the path function; `desc` identifies it."""
    def __init__(self, desc, make, timeout_s=120, solver_ms=10000, max_paths=20000, replay=None):
        self.desc, self.make, self.timeout_s, self.solver_ms, self.max_paths = desc, make, timeout_s, solver_ms, max_paths
        self.replay = replay


class HardTimeout(BaseException):
    pass


def _alarm(signum, frame):
    import traceback as _tb
    raise HardTimeout('item exceeded its hard time limit at:\n' + ''.join(_tb.format_stack(frame)[-6:]))


CHECK_DEADLINE = [None]      # wall-clock budget of the whole check (thorough tier): items not started by then are skipped


def _run_item(item):
    import signal
    t0 = time.time()
    out = dict(desc=item.desc, error=None)
    if CHECK_DEADLINE[0] is not None and t0 > CHECK_DEADLINE[0]:
        # not explored at all: reported under budget_reached, contributes nothing to the counts
        out.update(budget_hit=True, skipped=True, paths=0, wall_s=0.0)
        return out
    try:
        signal.signal(signal.SIGALRM, _alarm)
        signal.alarm(int(item.timeout_s * 1.5) + 60)
    except Exception:
        pass
    E = None
    try:
        # globals of the float world live in the worker process: start every item from the integer-only state
        import symx.core as _c
        from symx import fpworld as _fw
        _c.FP_MODE[0] = False
        _fw.reset()
    except Exception:
        pass
    try:
        fn = item.make()
        E = Engine(timeout_ms=item.solver_ms, max_paths=item.max_paths, deadline=t0 + item.timeout_s)
        funcs = set()
        first = [True]

        def wrapped():
            if first[0]:
                first[0] = False
                funcs.update(trace_functions_guard(fn))
            else:
                fn()
        E.explore(wrapped)
        out.update(E.stats())
        out['functions'] = sorted(funcs)
        out['samples'] = E.samples
        out['cands'] = [c.as_dict() for c in E.candidates]
    except HardTimeout as e:
        # the item ran past its hard wall-clock limit (one solver call outlasting its soft timeout, or a loaded machine):
        # inconclusive, listed under budget_reached; whatever was decided before the limit is kept
        try:
            out.update(E.stats())
            out['samples'] = E.samples
            out['cands'] = [c.as_dict() for c in E.candidates]
        except Exception:
            pass
        out['budget_hit'] = True
        out['hard_timeout'] = str(e)[:300]
    except BaseException as e:  # harness error inside an item
        out['error'] = '%s: %s\n%s' % (type(e).__name__, e, traceback.format_exc()[-1500:])
    finally:
        try:
            signal.alarm(0)
        except Exception:
            pass
    out['wall_s'] = round(time.time() - t0, 2)
    return out


def trace_functions_guard(fn):
    seen = set()

    def prof(frame, event, arg):
        if event == 'call':
            co = frame.f_code
            if co.co_filename.startswith(REPO + '/'):
                seen.add(os.path.basename(co.co_filename)[:-3] + '.' + co.co_qualname)
    import threading
    threading._verif_profile = prof      # stub worker threads install it too (shims.env.ShimThread)
    sys.setprofile(prof)
    try:
        fn()
    finally:
        sys.setprofile(None)
        threading._verif_profile = None
        _LAST_FUNCS.clear()
        _LAST_FUNCS.update(seen)
    return seen


_LAST_FUNCS = set()
_ITEMS = None


def _worker(i):
    return i, _run_item(_ITEMS[i])


def run_items(items, nproc=None):
    """Run items in a fork pool; returns list of result dicts (same order)."""
    global _ITEMS
    _ITEMS = items
    b = os.environ.get('VERIF_CHECK_BUDGET_S')
    if b:
        CHECK_DEADLINE[0] = time.time() + float(b)
    if os.environ.get('VERIF_LIST') == '1':      # debugging aid: list the work items and stop (nothing is decided)
        for it in items:
            print(it.desc)
        os._exit(4)
    nproc = nproc or min(16, os.cpu_count() or 4, max(1, len(items)))
    if os.environ.get('VERIF_SERIAL') == '1' or len(items) == 1:
        return [_run_item(it) for it in items]
    ctx = mp.get_context('fork')
    res = [None] * len(items)
    with ctx.Pool(nproc, maxtasksperchild=8) as pool:
        for i, r in pool.imap_unordered(_worker, range(len(items))):
            res[i] = r
    return res


# --------------------------------------------------------------------------------- findings
def load_known(prop):
    p = os.path.join(ROOT, 'known_findings.json')
    if not os.path.exists(p):
        return []
    with open(p) as f:
        data = json.load(f)
    return [e for e in data.get('findings', []) if e.get('property') == prop and e.get('status', 'known') == 'known']


def match_known(known, sig):
    """sig: dict(item=..., obligation=..., model=...). A finding matches on substrings + optional predicate."""
    for e in known:
        m = e.get('match', {})
        if 'item' in m and m['item'] not in sig.get('item', ''):
            continue
        if 'obligation' in m and m['obligation'] not in sig.get('obligation', ''):
            continue
        if 'where' in m:
            try:
                env = dict(sig.get('model') or {})
                env.update(sig.get('extra') or {})
                if not eval(m['where'], {'__builtins__': {}}, env):
                    continue
            except Exception:
                continue
        return e
    return None


SELFTEST_PARTS = {
    'reader': ['lazybytes', 'lazyarr', 'struct', 'lru', 'zfpy', 'reader'],
    'writer': ['lazybytes', 'lazyarr', 'struct', 'zfpy', 'segy', 'reader'],
    'C16': ['zfpy'], 'C19': ['struct'], 'C13': ['lazyarr', 'lru', 'reader'],
    'writer-fp': ['lazybytes', 'lazyarr', 'struct', 'zfpy', 'segy', 'reader', 'fp'],
}
SELFTEST_OF = dict(C02='reader', C14='reader', C07='reader', C15='reader', C17='reader', C18='reader', C10='reader', C12='reader',
                   C01='writer', C03='writer', C04='writer', C05='writer-fp', C08='writer', C09='writer', C11='writer', C20='writer',
                   C16='C16', C19='C19', C13='C13')


def finish(prop, tier, t0, results, items, assumptions, bounds, replay_fn=None, extra_cov=None, seed=None,
           validated=0, extra_samples=None, level='model_checking'):
    """Triage candidates (replay on the real code), print verdict lines, write evidence, return exit code."""
    known = load_known(prop)
    if seed is None:
        try:
            seed = int(os.environ.get('VERIF_SEED', '0'))
        except ValueError:
            seed = 0
    selftest_bad = []
    selftest_parts = SELFTEST_PARTS.get(SELFTEST_OF.get(prop, ''), [])
    if selftest_parts and os.environ.get('VERIF_NO_SELFTEST') != '1':
        from . import selftest
        n_ok, selftest_bad = selftest.run(selftest_parts, tier, seed)
        validated += n_ok
    n_selftest = validated
    stats = dict(paths=0, aborted_paths=0, queries=0, solver_s=0.0, unknown=0, obligations=0, discharged=0,
                 nonlinear=0, memo_hits=0)
    funcs, not_encoded, undecided, errors, samples, budget = set(), [], [], [], [], []
    reach = {}
    cands = []
    for it, r in zip(items, results):
        if r is None:
            errors.append('%s: no result' % it.desc)
            continue
        if r.get('error'):
            errors.append('%s: %s' % (it.desc, r['error']))
            continue
        for k in stats:
            stats[k] += r.get(k, 0)
        funcs.update(r.get('functions', []))
        for m in r.get('not_encoded', []):
            not_encoded.append('%s: %s' % (it.desc, m))
        for m in r.get('undecided', []):
            undecided.append('%s: %s' % (it.desc, m))
        if r.get('budget_hit'):
            budget.append(it.desc)
        for k, v in r.get('reach', {}).items():
            reach[k] = reach.get(k, 0) + v
        for s in r.get('samples', [])[:2]:
            if len(samples) < 12:
                samples.append(dict(item=it.desc, **s))
        for c in r.get('cands', []):
            cands.append((it, c))
    if os.environ.get('VERIF_DEBUG'):
        with open(os.environ['VERIF_DEBUG'], 'w') as f:
            for it, r in sorted(zip(items, results), key=lambda x: -(x[1] or {}).get('wall_s', 0)):
                f.write('%7.1fs paths=%-6s q=%-7s solver=%-7s unk=%s cands=%s budget=%s ne=%s %s\n' % (
                    r.get('wall_s', 0), r.get('paths'), r.get('queries'), r.get('solver_s'), r.get('unknown'),
                    len(r.get('cands', [])), r.get('budget_hit'), r.get('not_encoded'), it.desc))
    violations, known_hits, unreproduced = [], {}, []
    replays = 0
    os.makedirs(os.path.join(ROOT, 'cex'), exist_ok=True)
    seen_sigs = set()
    per_key = {}
    for it, c in cands:
        sig = dict(item=it.desc, obligation=c['msg'], model=c['model'], extra=c.get('info') if isinstance(c.get('info'), dict) else None)
        rf = it.replay or replay_fn
        key = (it.desc, c['msg'])
        per_key[key] = per_key.get(key, 0) + 1
        if per_key[key] > 2:
            continue      # at most two replays per (work item, obligation)
        rep = None
        if rf is not None:
            try:
                rep = rf(it, c)
                replays += 1
            except Exception as e:
                rep = dict(reproduced=False, detail='replay crashed: %s: %s' % (type(e).__name__, e),
                           tb=traceback.format_exc()[-1200:])
        if rep is None:
            rep = dict(reproduced=False, detail='no replayer for this obligation')
        seen_sigs.add(key)
        if not rep.get('reproduced'):
            unreproduced.append(dict(sig=sig, replay=rep))
            continue
        if rep.get('extra'):
            sig['extra'] = dict(sig.get('extra') or {}, **rep['extra'])
        e = match_known(known, sig)
        if e is not None:
            known_hits.setdefault(e['id'], (e, sig, rep))
            continue
        path = os.path.join(ROOT, 'cex', '%s-%d.json' % (prop, len(violations)))
        with open(path, 'w') as f:
            json.dump(dict(property=prop, item=it.desc, obligation=c['msg'], model=c['model'], info=c.get('info'),
                           replay=rep), f, indent=1, default=str)
        violations.append((path, sig, rep))
    for fid, (e, sig, rep) in sorted(known_hits.items()):
        print("KNOWN-FINDING: property=%s %s [%s] e.g. %s" % (prop, e['what'], fid, json.dumps(sig['model'], default=str)[:200]))
    printed = set()
    for path, sig, rep in violations:
        k = (sig['item'], sig['obligation'])
        if k in printed:
            continue
        printed.add(k)
        print("VIOLATION property=%s replay=%s" % (prop, path))
        print("  item=%s obligation=%s model=%s\n  observed: %s" % (sig['item'], sig['obligation'],
              json.dumps(sig['model'], default=str)[:300], str(rep.get('detail'))[:400]))
    wall = time.time() - t0
    vacuous = [k for k, v in (extra_cov or {}).get('must_reach', {}).items() if reach.get(k, 0) == 0]
    for suf in (extra_cov or {}).get('must_reach_suffix', []):
        if not any(k.endswith(suf) and v > 0 for k, v in reach.items()):
            vacuous.append('*' + suf)
    cov = dict(states=max(1, stats['paths']), transitions=max(1, stats['discharged']),
               traces_validated_against_impl=replays + validated,
               samples=(samples + (extra_samples or []))[:16] or [dict(note='no obligations')],
               obligations=stats['obligations'], discharged=stats['discharged'],
               functions_encoded=sorted(funcs), bounds=bounds, queries=stats['queries'], memo_hits=stats['memo_hits'],
               unknown=stats['unknown'], nonlinear_terms=stats['nonlinear'], solver_s=round(stats['solver_s'], 2),
               work_items=len(items), aborted_paths=stats['aborted_paths'],
               not_encoded=sorted(set(not_encoded))[:40], undecided=undecided[:40], budget_reached=budget[:40],
               candidates=len(cands), reproduced_violations=len(violations), known_findings=sorted(known_hits),
               unreproduced_candidates=[dict(item=u['sig']['item'], obligation=u['sig']['obligation'], model=u['sig']['model'],
                                             detail=str(u['replay'].get('detail'))[:300]) for u in unreproduced[:10]],
               reachability=reach, item_errors=errors[:10],
               exhaustive=False)
    cov['stub_validation'] = dict(parts=selftest_parts, cases_agreeing_with_the_real_library=n_selftest, mismatches=selftest_bad)
    if extra_cov:
        cov.update({k: v for k, v in extra_cov.items() if k not in ('must_reach', 'must_reach_suffix')})
    ev = dict(property_id=prop, tier=tier, seed=seed, level=level, coverage=cov, assumptions=assumptions,
              wall_s=round(wall, 2), violations=len(violations))
    os.makedirs(os.path.join(ROOT, 'evidence'), exist_ok=True)
    with open(os.path.join(ROOT, 'evidence', '%s.json' % prop), 'w') as f:
        json.dump(ev, f, indent=1, default=str)
    print("%s %s: items=%d paths=%d obligations=%d discharged=%d unknown=%d not_encoded=%d budget=%d candidates=%d "
          "violations=%d known=%d unreproduced=%d solver=%.1fs wall=%.1fs" % (
              prop, tier, len(items), stats['paths'], stats['obligations'], stats['discharged'], stats['unknown'],
              len(set(not_encoded)), len(budget), len(cands), len(violations), len(known_hits), len(unreproduced),
              stats['solver_s'], wall))
    if violations:
        return EXIT_VIOLATION
    if selftest_bad:
        for e in selftest_bad[:5]:
            print("HARNESS-ERROR stub validation against the real library failed (nothing claimed): " + e[:500])
        return EXIT_HARNESS
    if errors:
        for e in errors[:5]:
            print("HARNESS-ERROR " + e[:600])
        return EXIT_HARNESS
    if unreproduced:
        for u in unreproduced[:5]:
            print("UNREPRODUCED candidate (encoding/stub error, nothing claimed): %s | %s | %s | %s" % (
                u['sig']['item'], u['sig']['obligation'], json.dumps(u['sig']['model'], default=str)[:200],
                str(u['replay'].get('detail'))[:300]))
        return EXIT_HARNESS
    if vacuous:
        print("HARNESS-ERROR vacuous harness: never reached %s" % vacuous)
        return EXIT_HARNESS
    if stats['discharged'] == 0:
        print("HARNESS-ERROR nothing discharged")
        return EXIT_HARNESS
    return EXIT_OK
