"""Dispatch: python -m harness.main <Cxx> <tier> [only]"""
import os
import sys
import importlib

TABLE = {
    'C02': ('harness.c02', lambda m, tier, only: m.main('C02', 'in', tier, only)),
    'C14': ('harness.c02', lambda m, tier, only: m.main('C14', 'out', tier, only)),
    'C17': ('harness.c17', lambda m, tier, only: m.main('C17', tier, only)),
    'C18': ('harness.c17', lambda m, tier, only: m.main('C18', tier, only)),
    'C15': ('harness.c15', lambda m, tier, only: m.main('C15', tier, only)),
    'C03': ('harness.c03', lambda m, tier, only: m.main('C03', tier, only)),
    'C01': ('harness.c01', lambda m, tier, only: m.main('C01', tier, only)),
    'C04': ('harness.c01', lambda m, tier, only: m.main('C04', tier, only)),
    'C05': ('harness.c01', lambda m, tier, only: m.main('C05', tier, only)),
    'C08': ('harness.c01', lambda m, tier, only: m.main('C08', tier, only)),
    'C09': ('harness.c01', lambda m, tier, only: m.main('C09', tier, only)),
    'C11': ('harness.c01', lambda m, tier, only: m.main('C11', tier, only)),
    'C20': ('harness.c01', lambda m, tier, only: m.main('C20', tier, only)),
    'C10': ('harness.c10', lambda m, tier, only: m.main('C10', tier, only)),
    'C12': ('harness.c10', lambda m, tier, only: m.main('C12', tier, only)),
    'C19': ('harness.c19', lambda m, tier, only: m.main('C19', tier, only)),
    'C13': ('harness.c13', lambda m, tier, only: m.main('C13', tier, only)),
    'C16': ('harness.c16', lambda m, tier, only: m.main('C16', tier, only)),
    'C07': ('harness.c07', lambda m, tier, only: m.main('C07', tier, only)),
}


def main():
    prop = sys.argv[1]
    tier = sys.argv[2] if len(sys.argv) > 2 else 'quick'
    only = sys.argv[3] if len(sys.argv) > 3 and sys.argv[3] else None
    if prop not in TABLE:
        print("no check registered for %s" % prop)
        return 3
    if tier == 'thorough' and not os.environ.get('VERIF_CHECK_BUDGET_S'):
        # the thorough tier is bounded: work items not STARTED within this many seconds are skipped and listed under
        # budget_reached in the evidence (they contribute nothing to the counts)
        os.environ['VERIF_CHECK_BUDGET_S'] = '1800'
    modname, fn = TABLE[prop]
    m = importlib.import_module(modname)
    return fn(m, tier, only)


if __name__ == '__main__':
    sys.exit(main())
