"""Translator / stub validation (Serval-style): the stubs and the harness are run on CONCRETE inputs and compared with
the real libraries.  Every check calls the parts it depends on; the number of cases that agreed is reported as
`traces_validated_against_impl` and a disagreement is a harness error (exit 3: nothing is claimed).

  stubs:      LazyBytes vs bytearray, LazyArr vs numpy, ShimStruct vs struct, sym_lru_cache vs functools.lru_cache
  zfpy:       fixed-rate contract (stream = concatenation of independently coded cells) against real zfpy
  reader:     the reader harness in concrete mode (same code path as the symbolic run, ints instead of SymInts) on a real
              spec-written file; the provenance it returns is materialised with real zfpy from the file's bytes and
              compared bit for bit with what the real, unstubbed SgzReader returns (separate process)
  segy:       ShimSegyHandle with a concrete model vs real segyio on the same synthetic file
"""
import os
import random
import struct
import subprocess
import tempfile
import json
import shutil
import numpy as np
from .common import *
from symx.core import Engine
import symx.core as core
from shims import lazyarr
from shims.lazybytes import byte_value, shim_bytearray
from shims.lazyarr import from_numpy, ShimNP


class Mismatch(Exception):
    pass


def _concrete_engine():
    E = Engine(concrete={})
    core.ENG = E
    return E


def materialise_bytes(lb):
    n = lb.length
    return bytes(byte_value(lb.resolve(i, 1)) for i in range(n))


def test_lazybytes(rng, n=40):
    _concrete_engine()
    ok = 0
    for _ in range(n):
        size = rng.randrange(0, 40)
        ref = bytearray(rng.randrange(256) for _ in range(size))
        lb = shim_bytearray(bytes(ref))
        for _ in range(6):
            op = rng.choice(['set', 'setresize', 'get', 'add'])
            a, b = sorted((rng.randrange(-5, size + 8), rng.randrange(-5, size + 8)))
            if op == 'set':
                ln = len(ref[a:b])
                v = bytes(rng.randrange(256) for _ in range(ln))
                ref[a:b] = v
                lb[a:b] = v
            elif op == 'setresize':
                v = bytes(rng.randrange(256) for _ in range(rng.randrange(0, 6)))
                ref[a:b] = v
                lb[a:b] = v
            elif op == 'get':
                if materialise_bytes(lb[a:b]) != bytes(ref[a:b]):
                    raise Mismatch('LazyBytes slice [%d:%d]' % (a, b))
            else:
                v = bytes(rng.randrange(256) for _ in range(3))
                ref = ref + v
                lb = lb + v
            size = len(ref)
        if materialise_bytes(lb) != bytes(ref) or lb.length != len(ref):
            raise Mismatch('LazyBytes content after random operations')
        ok += 1
    return ok


def arr_values(la):
    out = np.zeros(tuple(int(s) for s in la.shape), dtype=np.int64)
    for idx in np.ndindex(*out.shape):
        out[idx] = int(la.get(tuple(int(i) for i in idx)))
    return out


def test_lazyarr(rng, n=40):
    _concrete_engine()
    snp = ShimNP()
    lazyarr.ALWAYS_LAZY[0] = True
    ok = 0
    for _ in range(n):
        shape = tuple(rng.randrange(1, 5) for _ in range(rng.choice([1, 2, 3])))
        ref = np.array([rng.randrange(-50, 50) for _ in range(int(np.prod(shape)))], dtype=np.int64).reshape(shape)
        la = from_numpy(ref.copy())
        la = la.copy()
        ref = ref.copy()
        for _ in range(5):
            key = tuple(slice(rng.randrange(-3, 5), rng.randrange(-3, 6), rng.choice([None, 1, 2])) if rng.random() < 0.7 else rng.randrange(0, s)
                        for s in shape)
            op = rng.choice(['get', 'set', 'setarr', 'pad', 'reshape', 'tobytes'])
            if op == 'get':
                r = ref[key]
                l = la[key]
                if np.ndim(r) == 0:
                    if int(l) != int(r):
                        raise Mismatch('LazyArr scalar index %s' % (key,))
                elif arr_values(l).tolist() != r.tolist():
                    raise Mismatch('LazyArr view %s' % (key,))
            elif op == 'set':
                v = rng.randrange(-9, 9)
                ref[key] = v
                la[key] = v
            elif op == 'setarr':
                tgt = ref[key]
                if np.ndim(tgt) and tgt.size:
                    v = np.array([rng.randrange(-9, 9) for _ in range(tgt.shape[-1])], dtype=np.int64)
                    ref[key] = v
                    la[key] = from_numpy(v)
            elif op == 'pad':
                pads = tuple((0, rng.randrange(0, 3)) for _ in shape)
                if arr_values(snp.pad(la, pads, 'edge')).tolist() != np.pad(ref, pads, 'edge').tolist():
                    raise Mismatch('np.pad edge %s' % (pads,))
            elif op == 'reshape':
                if arr_values(la.reshape((-1,))).tolist() != ref.reshape(-1).tolist():
                    raise Mismatch('reshape')
            else:
                got = materialise_i64(la.astype('i4').tobytes())
                if got != ref.astype(np.int32).tobytes():
                    raise Mismatch('astype(int32).tobytes()')
        if arr_values(la).tolist() != ref.tolist():
            raise Mismatch('LazyArr content after random operations')
        ok += 1
    return ok


def materialise_i64(lb):
    out = bytearray()
    for i in range(0, lb.length, 4):
        leaf = lb.resolve(i, 4)
        v = lazyarr.i32_of_leaf(leaf)
        out += struct.pack('<i', int(v))
    return bytes(out)


def test_struct(rng, n=60):
    _concrete_engine()
    from shims.lazybytes import ShimStruct, LazyBytes
    ok = 0
    for _ in range(n):
        fmt = rng.choice(['<I', '<i', '<H', '<h', '>H'])
        lo, hi = {'I': (0, 2 ** 32 - 1), 'i': (-2 ** 31, 2 ** 31 - 1), 'H': (0, 65535), 'h': (-32768, 32767)}[fmt[-1]]
        v = rng.choice([lo, hi, 0, rng.randrange(lo, hi + 1)])
        b = struct.pack(fmt, v)
        if ShimStruct.pack(fmt, v) != b or ShimStruct.unpack(fmt, LazyBytes.wrap(b))[0] != v:
            raise Mismatch('struct %s %d' % (fmt, v))
        ok += 1
    return ok


def test_lru(rng, n=30):
    import functools
    _concrete_engine()
    ok = 0
    for _ in range(n):
        ms = rng.choice([1, 2, 3])
        calls_a, calls_b = [], []

        def fa(x, y=0):
            calls_a.append((x, y))
            return (x, y)

        def fb(x, y=0):
            calls_b.append((x, y))
            return (x, y)
        ca = functools.lru_cache(maxsize=ms)(fa)
        cb = shenv.sym_lru_cache(maxsize=ms)(fb)
        for _ in range(12):
            x, y = rng.randrange(3), rng.randrange(2)
            if rng.random() < 0.1:
                ca.cache_clear()
                cb.cache_clear()
            if ca(x, y) != cb(x, y):
                raise Mismatch('lru result')
        if calls_a != calls_b:
            raise Mismatch('lru_cache(maxsize=%d) hit/miss pattern' % ms)
        ok += 1
    return ok


def test_zfpy_contract(rng, n=6):
    import zfpy
    ok = 0
    for _ in range(n):
        rate = rng.choice([1, 2, 4, 8, 16, 32])
        shape = tuple(4 * rng.randrange(1, 3) for _ in range(3))
        a = np.asarray(np.random.default_rng(rng.randrange(1000)).standard_normal(shape) * 100, dtype=np.float32)
        whole = bytes(zfpy.compress_numpy(a, rate=rate, write_header=False))
        ub = 64 * rate // 8
        cells = []
        for i in range(0, shape[0], 4):
            for x in range(0, shape[1], 4):
                for z in range(0, shape[2], 4):
                    c = bytes(zfpy.compress_numpy(np.ascontiguousarray(a[i:i + 4, x:x + 4, z:z + 4]), rate=rate, write_header=False))
                    cells.append(c[:ub])
        if ub >= 8:
            if whole[:len(cells) * ub] != b''.join(cells):
                raise Mismatch('zfp fixed-rate stream is not the concatenation of its cells (rate %s)' % rate)
        # decoding one cell depends only on its own bytes
        k = rng.randrange(len(cells))
        dec_whole = zfpy._decompress(whole, zfpy.dtype_to_ztype(np.dtype('float32')), shape, rate=rate)
        cell_bytes = whole[k * ub:(k + 1) * ub] + bytes(8)
        dec_cell = zfpy._decompress(cell_bytes, zfpy.dtype_to_ztype(np.dtype('float32')), (4, 4, 4), rate=rate)
        ci = np.unravel_index(k, tuple(s // 4 for s in shape))
        sub = dec_whole[ci[0] * 4:ci[0] * 4 + 4, ci[1] * 4:ci[1] * 4 + 4, ci[2] * 4:ci[2] * 4 + 4]
        if not np.array_equal(np.asarray(sub).view(np.uint32), np.asarray(dec_cell).view(np.uint32)):
            raise Mismatch('zfp cell decode depends on other cells (rate %s)' % rate)
        ok += 1
    return ok


REAL_CALL = r'''
import sys, json, io, contextlib, numpy as np
sys.path.insert(0, %(root)r); sys.path.insert(1, __import__('os').environ.get('VERIF_REPO', '/repo'))
import warnings; warnings.filterwarnings('ignore')
from harness import readers
import seismic_zfp.read as R
req = json.load(open(sys.argv[1]))
m = (readers.METHODS_2D if req['bs'][0] == 1 else readers.METHODS)[req['method']]
r = R.SgzReader(req['path'])
with contextlib.redirect_stdout(io.StringIO()):
    try:
        res = np.asarray(m.call(r, req['args']), dtype=np.float32)
        np.save(req['out'], res)
    except Exception as e:
        json.dump(dict(exc=type(e).__name__), open(req['out'] + '.json', 'w'))
'''


def test_reader_translation(rng, n=6):
    """Stub-run (concrete mode) of the reader harness, materialised from the real file, vs the real reader."""
    from . import readers
    from replay import specio
    import zfpy
    mm = mods()
    ok = 0
    tmp = tempfile.mkdtemp(prefix='verif-selftest-')
    try:
        for case in range(n):
            bs, rate = rng.choice([((4, 4, 256), 8), ((4, 4, 1024), 2), ((8, 8, 64), 8), ((64, 64, 4), 2), ((4, 8, 128), 8), ((1, 16, 256), 8), ((1, 4, 1024), 8)])
            is2d = bs[0] == 1
            if is2d:
                dims = (rng.randrange(2, 2 * bs[1] + 1), rng.randrange(2, 2 * bs[2] + 1))
                mname = rng.choice(['read_subplane', 'get_trace_2d'])
            else:
                dims = tuple(rng.randrange(2, 2 * b + 1) for b in bs)
                mname = rng.choice(['read_inline', 'read_crossline', 'read_zslice', 'read_subvolume', 'get_trace', 'get_trace_window',
                                    'read_correlated_diagonal', 'read_anticorrelated_diagonal'])
                if 'diagonal' in mname and max(dims[0], dims[1]) > 12:
                    mname = 'read_subvolume'
            m = (readers.METHODS_2D if is2d else readers.METHODS)[mname]
            path = os.path.join(tmp, 'c%d.sgz' % case)
            cube = specio.random_cube(dims, case)
            (specio.write_sgz_2d if is2d else specio.write_sgz_3d)(path, cube, bs, rate)
            # in-range arguments
            for _ in range(200):
                if mname in ('read_subvolume', 'read_subplane'):
                    args = []
                    for d in dims:
                        a = rng.randrange(0, d)
                        args += [a, rng.randrange(a + 1, d + 1)]
                elif mname == 'get_trace_window':
                    a = rng.randrange(0, dims[2])
                    args = [rng.randrange(0, dims[0] * dims[1]), a, rng.randrange(a + 1, dims[2] + 1)]
                elif mname == 'get_trace':
                    args = [rng.randrange(0, dims[0] * dims[1])]
                elif mname == 'get_trace_2d':
                    args = [rng.randrange(0, dims[0])]
                elif mname == 'read_correlated_diagonal':
                    args = [rng.randrange(-dims[1] + 1, dims[0])]
                elif mname == 'read_anticorrelated_diagonal':
                    args = [rng.randrange(0, dims[0] + dims[1] - 1)]
                else:
                    args = [rng.randrange(0, dims[{'read_inline': 0, 'read_crossline': 1, 'read_zslice': 2}[mname]])]
                break
            # stub run in concrete mode (the very harness code of the symbolic run)
            conc = dict(zip(m.argn, args))
            if is2d:
                conc.update(n_tr=dims[0], n_s=dims[1])
            else:
                conc.update(n_il=dims[0], n_xl=dims[1], n_s=dims[2])
            nb = tuple((n_ + b - 1) // b for n_, b in zip(dims, bs[1:] if is2d else bs))
            captured = {}
            for k in range(4):
                conc['q%d' % k] = 0

            def hook(E, m_, T, r, st, n0, a, res):
                captured['res'] = res
            E = Engine(concrete=conc)
            fn = readers.item_fn(mname, bs, rate, nb, 'in', dict(version=spec.encode_version(0, 2, 5, True), axes=(1, 1), after_call=hook))
            E.explore(fn)
            if E.candidates or 'res' not in captured:
                raise Mismatch('reader harness (concrete) rejected %s%s on %s %s: %s' % (mname, args, dims, bs, [c.msg for c in E.candidates][:2]))
            res = captured['res']
            with open(path, 'rb') as f:
                data = f.read()
            shape = tuple(int(s) for s in res.shape)
            got = np.zeros(shape, dtype=np.float32)
            nd = 2 if is2d else 3
            ub = (4 ** nd) * rate // 8 if not isinstance(rate, float) else int((4 ** nd) * rate) // 8
            cache = {}
            for idx in np.ndindex(*shape):
                p = res.get(tuple(int(i) for i in idx))
                off = int(p[1][2])
                if off not in cache:
                    cache[off] = np.asarray(zfpy._decompress(data[off:off + ub] + bytes(8), zfpy.dtype_to_ztype(np.dtype('float32')), (4,) * nd, rate=rate))
                got[idx] = cache[off][tuple(int(v) for v in p[2])]
            # the real reader in a clean interpreter
            req = dict(path=path, method=mname, args=args, bs=list(bs), out=os.path.join(tmp, 'r%d.npy' % case))
            rp = os.path.join(tmp, 'req%d.json' % case)
            json.dump(req, open(rp, 'w'))
            script = os.path.join(tmp, 'real_call.py')
            open(script, 'w').write(REAL_CALL % dict(root=ROOT))
            env = dict(os.environ, PYTHONPATH=ROOT)
            subprocess.run(['/venv/bin/python', script, rp], cwd=ROOT, env=env, capture_output=True, timeout=120)
            if not os.path.exists(req['out']):
                raise Mismatch('real reader raised for in-range %s%s on %s %s' % (mname, args, dims, bs))
            real = np.load(req['out'])
            if np.squeeze(real).shape != np.squeeze(got).shape or not np.array_equal(np.squeeze(real).view(np.uint32), np.squeeze(got).view(np.uint32)):
                raise Mismatch('stub run and real run differ: %s%s on %s cube, blockshape %s' % (mname, args, dims, bs))
            ok += 1
    finally:
        shutil.rmtree(tmp, ignore_errors=True)
    return ok


def test_segy_stub(rng, n=3):
    """ShimSegyHandle with a concrete model vs real segyio on the file the model describes."""
    from shims import segy as shsegy
    from replay.segymake import make_segy
    import segyio
    _concrete_engine()
    ok = 0
    tmp = tempfile.mkdtemp(prefix='verif-selftest-')
    try:
        for case in range(n):
            dims = (rng.randrange(2, 5), rng.randrange(2, 5), rng.randrange(2, 9))
            il0, ils, xl0, xls = rng.randrange(1, 50), rng.choice([1, 2, -1]), rng.randrange(60, 90), rng.choice([1, 3, -2])
            fmt, ext = rng.choice([1, 5]), rng.choice([0, 1])
            path = os.path.join(tmp, 's%d.sgy' % case)
            extra = lambda t, i, x: {segyio.TraceField(73): 7 * t - 3, segyio.TraceField(37): 5}
            traces, headers, pos = make_segy(path, 'regular', dims, fmt=fmt, ext=ext, il0=il0, il_step=ils, xl0=xl0, xl_step=xls, extra=extra)
            model = shsegy.SegyModel('regular', dims[2], fmt=fmt, ext=ext, n_il=dims[0], n_xl=dims[1], il0=il0, il_step=ils, xl0=xl0, xl_step=xls,
                                     varying={73: lambda t: 7 * t - 3}, consts={37: 5, 115: dims[2], 117: 4000})
            h = shsegy.ShimSegyHandle(model, None)
            with segyio.open(path, strict=False) as f:
                if [int(v) for v in f.ilines] != [int(h.ilines.get((k,))) for k in range(dims[0])] or \
                        [int(v) for v in f.xlines] != [int(h.xlines.get((k,))) for k in range(dims[1])]:
                    raise Mismatch('segy stub axes')
                if f.tracecount != h.tracecount or [float(v) for v in f.samples] != [float(h.samples.get((k,))) for k in range(dims[2])]:
                    raise Mismatch('segy stub tracecount / samples')
                for t in (0, f.tracecount - 1, rng.randrange(f.tracecount)):
                    real = {int(k): int(v) for k, v in f.header[t].items()}
                    stub = {int(k): int(v) for k, v in h.header[t].items()}
                    if real != stub:
                        raise Mismatch('segy stub header %d: %s' % (t, {k: (real[k], stub[k]) for k in real if real[k] != stub[k]}))
                    p = h.trace[t].get((1,))
                    if p != ('src', t // dims[1], t % dims[1], 1):
                        raise Mismatch('segy stub trace provenance')
                k = rng.randrange(dims[0])
                p = h.iline[int(f.ilines[k])].get((1, 0))
                if p != ('src', k, 1, 0):
                    raise Mismatch('segy stub iline provenance')
                # byte layout used by the reduced-I/O reader
                st = shsegy.segy_store(model)
                t = rng.randrange(f.tracecount)
                off = 3600 + 3200 * ext + t * (240 + 4 * dims[2])
                leaf = st.content.resolve(off + 240 + 4 * 1, 4)
                if leaf[0] != 'segy-sample' or int(leaf[1]) != t or int(leaf[2]) != 1:
                    raise Mismatch('segy stub byte layout (sample)')
                with open(path, 'rb') as fh:
                    fh.seek(off + 188)
                    il_real = struct.unpack('>i', fh.read(4))[0]
                if il_real != int(model.header_value(t, 189)):
                    raise Mismatch('segy stub byte layout (trace header offset)')
            ok += 1
    finally:
        shutil.rmtree(tmp, ignore_errors=True)
    return ok


def test_fp_encoding(rng, n=60):
    """The float world (symx.symfloat / symx.fpworld, shims.lazyarr arange/rint) on concrete inputs vs real numpy: the
    z3 FP terms built by the SAME operators the symbolic run uses are evaluated by z3 and compared bit for bit with
    what numpy computes for the writer's interval expression, segyio's sample axis and the reader's axis."""
    import z3
    from symx.symfloat import SymFloat, to_fp
    from symx import fpworld
    fpworld.reset()
    RNE = z3.RNE()

    def val(x):
        t = z3.simplify(x.t if isinstance(x, SymFloat) else x)
        bits = z3.simplify(z3.fpToIEEEBV(t))
        if not z3.is_bv_value(bits):
            raise Mismatch('fp term did not evaluate: %s' % str(t)[:80])
        return struct.unpack('<d', struct.pack('<Q', bits.as_long()))[0]

    done = 0
    for _ in range(n):
        dt = rng.choice([1, 333, 1001, 1292, 1988, 4000, 65535, rng.randint(1, 65535)])
        t0 = rng.choice([0, 7, -129, -32768, 32767, rng.randint(-32768, 32767)])
        k = rng.randint(0, 300)
        cnt = rng.randint(2, 300)
        # segyio: samples = arange(n) * (dt / 1000.0) + t0
        step = SymFloat(to_fp(dt)) / 1000.0
        sk = step * k + t0
        real = (np.arange(k + 1) * (dt / 1000.0) + t0)[k]
        if np.float64(val(sk)).tobytes() != np.float64(real).tobytes():
            raise Mismatch('samples[k] dt=%d t0=%d k=%d: %r vs %r' % (dt, t0, k, val(sk), real))
        # writer: 1000.0 * (s1 - s0), truncated / rounded
        s0, s1 = step * 0 + t0, step * 1 + t0
        x = (s1 - s0) * 1000.0
        rs = np.arange(2) * (dt / 1000.0) + t0
        rx = 1000.0 * np.array(rs[1] - rs[0])
        if np.float64(val(x)).tobytes() != np.float64(rx).tobytes():
            raise Mismatch('interval expression dt=%d t0=%d' % (dt, t0))
        for mode, got, want in (('trunc', x.trunc_int(), int(rx.astype(int))), ('rint', x.rint().trunc_int(), int(np.rint(rx)))):
            g = got if isinstance(got, int) else z3.simplify(fpworld.to_bv(got.t)).as_signed_long()
            if g != want:
                raise Mismatch('%s dt=%d t0=%d: %d vs %d' % (mode, dt, t0, g, want))
        # the same expression on float32 values (numpy 2 promotion: float32 with Python scalars stays float32)
        r32 = np.asarray(rs, dtype=np.float32)
        rx32 = 1000.0 * np.array(r32[1] - r32[0])
        x32 = (s1.to_f32() - s0.to_f32()) * 1000.0
        if not x32.f32 or np.float64(val(x32)).tobytes() != np.float64(rx32).tobytes() or \
                z3.simplify(fpworld.to_bv(x32.rint().trunc_int().t) if not isinstance(x32.rint().trunc_int(), int) else z3.BitVecVal(x32.rint().trunc_int(), 64)).as_signed_long() != int(np.rint(rx32)):
            raise Mismatch('float32 interval expression dt=%d t0=%d: %r vs %r' % (dt, t0, val(x32), float(rx32)))
        done += 1
        # reader, both formulations: arange(start, start + step*count, step) and start + step*arange(count)
        rate = dt / 1000
        ra = np.arange(t0, t0 + rate * cnt, rate)
        la = lazyarr._arange_fp(t0, SymFloat(to_fp(t0)) + step * cnt, step)
        ln = la.shape[0]
        ln = ln if isinstance(ln, int) else z3.simplify(fpworld.to_bv(ln.t)).as_signed_long()
        if ln != len(ra):
            raise Mismatch('arange length dt=%d t0=%d n=%d: %d vs %d' % (dt, t0, cnt, ln, len(ra)))
        kk = min(k, len(ra) - 1)
        if np.float64(val(la.get((kk,)))).tobytes() != np.float64(ra[kk]).tobytes():
            raise Mismatch('arange element dt=%d t0=%d k=%d' % (dt, t0, kk))
        rb = (t0 + rate * np.arange(cnt))[min(k, cnt - 1)]
        vb = step * min(k, cnt - 1) + t0
        if np.float64(val(vb)).tobytes() != np.float64(rb).tobytes():
            raise Mismatch('start + step*arange dt=%d t0=%d' % (dt, t0))
        done += 5
    # and against segyio itself on a real file (the 2-byte interval field: only 1..32767 us reach segyio as written)
    from replay.segymake import make_segy
    import segyio
    d = tempfile.mkdtemp(prefix='verif-fpst-')
    try:
        for dt, t0 in ((1001, 0), (32767, -32768), (rng.randint(1, 32767), rng.randint(-32768, 32767))):
            path = os.path.join(d, 'a.sgy')
            make_segy(path, 'regular', (2, 2, 9), fmt=5, dt_us=dt, t0_ms=t0)
            with segyio.open(path) as f:
                real = np.array(f.samples, dtype=np.float64)
            step = SymFloat(to_fp(dt)) / 1000.0
            for k in range(9):
                if np.float64(val(step * k + t0)).tobytes() != np.float64(real[k]).tobytes():
                    raise Mismatch('segyio samples[%d] for dt=%d t0=%d: %r vs %r' % (k, dt, t0, val(step * k + t0), real[k]))
                done += 1
    finally:
        shutil.rmtree(d, ignore_errors=True)
    fpworld.reset()
    return done


PARTS = dict(lazybytes=test_lazybytes, lazyarr=test_lazyarr, struct=test_struct, lru=test_lru, zfpy=test_zfpy_contract,
             reader=test_reader_translation, segy=test_segy_stub, fp=test_fp_encoding)


def run(parts, tier='quick', seed=0):
    """-> (validated count, list of mismatch messages)."""
    rng = random.Random(seed)
    total, bad = 0, []
    saved = core.ENG
    for p in parts:
        try:
            n = PARTS[p](rng) if tier == 'quick' else PARTS[p](rng, {'reader': 24, 'segy': 8, 'zfpy': 20}.get(p, 120))
            total += n
        except Mismatch as e:
            bad.append('%s: %s' % (p, e))
        except Exception as e:
            import traceback
            bad.append('%s: selftest crashed: %s: %s | %s' % (p, type(e).__name__, e, traceback.format_exc()[-300:]))
    core.ENG = saved
    return total, bad


if __name__ == '__main__':
    import sys
    t, b = run(sys.argv[1:] or list(PARTS), 'quick')
    print('validated', t, 'mismatches', b)
