"""Reader-side harness: every read API of the real SgzReader on a symbolic conforming SGZ file.

One *work item* = (method, layout, blocks-per-axis, mode).  The real `SgzReader.__init__`, the read method
and the real loader run on symbolic dimensions / arguments; the file is abstract (every data byte has
provenance ('file', fid, offset)); the oracle is the cell-offset model of models/spec.py.

modes:  'in'  (C02)  arguments assumed in range: the call must return the right slice
        'out' (C14)  arguments assumed NOT in range: the call must raise IndexError / dimensionality error,
                     or return exactly what Python indexing denotes (negative ordinals)
The I/O log of the call is checked for C07 in both modes by harness/c07 (uses run_method with a hook).
"""
from .common import *
from symx.core import implied, b_not, SymBool, Infeasible


# ----------------------------------------------------------------------------- python indexing model
def py_wrap(k, n):
    """Python ordinal -> index in [0,n) or None if it denotes nothing."""
    if k < 0:
        k = k + n
    if b_or(k < 0, k >= n):
        return None
    return k


def py_slice(a, b, n):
    """Python a:b on length n -> (start, count)."""
    def norm(v, dflt):
        if v is None:
            return dflt
        if v < 0:
            v = v + n
            if v < 0:
                v = 0
        if v > n:
            v = n
        return v
    a = norm(a, 0)
    b = norm(b, n)
    if b < a:
        b = a
    return a, b - a


def in_box(lo, hi, n):
    return b_and(lo >= 0, lo < hi, hi <= n)


class M:
    """One read method: how to call it, when its arguments are in range, what it denotes."""
    def __init__(self, name, argn, call, inr, denote, needs=(), dim=3, kind='voxels'):
        self.name, self.argn, self.call, self.inr, self.denote = name, argn, call, inr, denote
        self.needs, self.dim, self.kind = set(needs), dim, kind


def _cd_len(cd, n_il, n_xl):
    # length of diagonal cd (independent model): traces (d+cd, d) for cd>=0, (d, d-cd) for cd<0
    if cd >= 0:
        a = n_il - cd
    else:
        a = n_il
    if cd >= 0:
        b = n_xl
    else:
        b = n_xl + cd
    return a if a < b else b


def _ad_len(ad, n_il, n_xl):
    # anti-diagonal ad: traces (d0+d, x0-d): starts at (0, ad) if ad < n_xl else (ad-n_xl+1, n_xl-1)
    if ad < n_xl:
        i0, x0 = 0, ad
    else:
        i0, x0 = ad - n_xl + 1, n_xl - 1
    a = n_il - i0
    b = x0 + 1
    return a if a < b else b


def methods_3d():
    ms = []

    ms.append(M('read_inline', ['il'], lambda r, a: r.read_inline(a[0]),
                lambda T, a: b_and(a[0] >= 0, a[0] < T.dims[0]),
                lambda T, a: (lambda k: None if k is None else ((T.dims[1], T.dims[2]), lambda q: (k, q[0], q[1])))(py_wrap(a[0], T.dims[0]))))
    ms.append(M('read_crossline', ['xl'], lambda r, a: r.read_crossline(a[0]),
                lambda T, a: b_and(a[0] >= 0, a[0] < T.dims[1]),
                lambda T, a: (lambda k: None if k is None else ((T.dims[0], T.dims[2]), lambda q: (q[0], k, q[1])))(py_wrap(a[0], T.dims[1]))))
    ms.append(M('read_zslice', ['z'], lambda r, a: r.read_zslice(a[0]),
                lambda T, a: b_and(a[0] >= 0, a[0] < T.dims[2]),
                lambda T, a: (lambda k: None if k is None else ((T.dims[0], T.dims[1]), lambda q: (q[0], q[1], k)))(py_wrap(a[0], T.dims[2]))))

    def sv_denote(T, a):
        s0, c0 = py_slice(a[0], a[1], T.dims[0])
        s1, c1 = py_slice(a[2], a[3], T.dims[1])
        s2, c2 = py_slice(a[4], a[5], T.dims[2])
        return ((c0, c1, c2), lambda q: (s0 + q[0], s1 + q[1], s2 + q[2]))
    ms.append(M('read_subvolume', ['min_il', 'max_il', 'min_xl', 'max_xl', 'min_z', 'max_z'],
                lambda r, a: r.read_subvolume(*a),
                lambda T, a: b_and(in_box(a[0], a[1], T.dims[0]), in_box(a[2], a[3], T.dims[1]), in_box(a[4], a[5], T.dims[2])),
                sv_denote))
    ms.append(M('read_volume', [], lambda r, a: r.read_volume(), lambda T, a: True,
                lambda T, a: (T.dims, lambda q: (q[0], q[1], q[2]))))

    # ---- traces (n_xl concrete: the code divides by it)
    def tr_denote(T, a, win):
        k = py_wrap(a[0], T.dims[0] * T.dims[1])
        if k is None:
            return None
        il, xl = k // T.dims[1], k % T.dims[1]
        if win:
            s, c = py_slice(a[1], a[2], T.dims[2])
        else:
            s, c = 0, T.dims[2]
        return ((c,), lambda q: (il, xl, s + q[0]))
    ms.append(M('get_trace', ['index'], lambda r, a: r.get_trace(a[0]),
                lambda T, a: b_and(a[0] >= 0, a[0] < T.dims[0] * T.dims[1]),
                lambda T, a: tr_denote(T, a, False), needs=['nxl']))
    ms.append(M('get_trace_window', ['index', 'min_s', 'max_s'], lambda r, a: r.get_trace(a[0], a[1], a[2]),
                lambda T, a: b_and(a[0] >= 0, a[0] < T.dims[0] * T.dims[1], in_box(a[1], a[2], T.dims[2])),
                lambda T, a: tr_denote(T, a, True), needs=['nxl']))

    # ---- diagonals (n_il, n_xl concrete: loops over traces)
    def cd_parts(T, a, crop, win):
        n_il, n_xl, n_s = T.dims
        cd = a[0]
        if b_or(cd <= -n_xl, cd >= n_il):
            return None
        ln = _cd_len(cd, n_il, n_xl)
        lo, cnt = 0, ln
        k = 1
        if crop:
            # an empty range denotes the empty slice (Python semantics); reversed / outside ranges denote nothing
            if not b_and(a[1] >= 0, a[1] <= a[2], a[2] <= ln):
                return None
            lo, cnt = a[1], a[2] - a[1]
            k = 3
        s, c = 0, n_s
        if win:
            if not in_box(a[k], a[k + 1], n_s):
                return None
            s, c = a[k], a[k + 1] - a[k]

        def vox(q):
            d = lo + q[0]
            if cd >= 0:
                return (d + cd, d, s + q[1])
            return (d, d - cd, s + q[1])
        return ((cnt, c), vox)

    def cd_inr(T, a, crop, win):
        n_il, n_xl, n_s = T.dims
        cd = a[0]
        c = b_and(cd > -n_xl, cd < n_il)
        if c is False:
            return False
        if isinstance(c, SymBool):
            # evaluated symbolically without forking: build the full predicate
            pass
        ln_pos = (n_il - cd) if True else None
        # length as term: min(n_il - max(cd,0), n_xl + min(cd,0))
        from symx.builtins import sym_min, sym_max
        import z3 as _z3
        if is_sym(cd):
            t = cd.t
            la = _z3.If(t >= 0, n_il - t, _z3.IntVal(n_il))
            lb = _z3.If(t >= 0, _z3.IntVal(n_xl), n_xl + t)
            ln = mk(_z3.If(la < lb, la, lb))
        else:
            ln = _cd_len(cd, n_il, n_xl)
        k = 1
        if crop:
            c = b_and(c, in_box(a[1], a[2], ln))
            k = 3
        if win:
            c = b_and(c, in_box(a[k], a[k + 1], n_s))
        return c

    for crop, win, nm, argn in ((False, False, 'read_correlated_diagonal', ['cd']),
                                (True, False, 'read_correlated_diagonal_crop', ['cd', 'min_cd', 'max_cd']),
                                (True, True, 'read_correlated_diagonal_crop_win', ['cd', 'min_cd', 'max_cd', 'min_s', 'max_s']),
                                (False, True, 'read_correlated_diagonal_win', ['cd', 'min_s', 'max_s'])):
        def call(r, a, crop=crop, win=win):
            kw = {}
            k = 1
            if crop:
                kw.update(min_cd_idx=a[1], max_cd_idx=a[2])
                k = 3
            if win:
                kw.update(min_sample_idx=a[k], max_sample_idx=a[k + 1])
            return r.read_correlated_diagonal(a[0], **kw)
        ms.append(M(nm, argn, call, lambda T, a, crop=crop, win=win: cd_inr(T, a, crop, win),
                    lambda T, a, crop=crop, win=win: cd_parts(T, a, crop, win), needs=['nil', 'nxl']))

    def ad_parts(T, a, crop, win):
        n_il, n_xl, n_s = T.dims
        ad = a[0]
        if b_or(ad < 0, ad >= n_il + n_xl - 1):
            return None
        ln = _ad_len(ad, n_il, n_xl)
        lo, cnt = 0, ln
        k = 1
        if crop:
            # an empty range denotes the empty slice (Python semantics); reversed / outside ranges denote nothing
            if not b_and(a[1] >= 0, a[1] <= a[2], a[2] <= ln):
                return None
            lo, cnt = a[1], a[2] - a[1]
            k = 3
        s, c = 0, n_s
        if win:
            if not in_box(a[k], a[k + 1], n_s):
                return None
            s, c = a[k], a[k + 1] - a[k]

        def vox(q):
            d = lo + q[0]
            if ad < n_xl:
                return (d, ad - d, s + q[1])
            return (ad - n_xl + 1 + d, n_xl - 1 - d, s + q[1])
        return ((cnt, c), vox)

    def ad_inr(T, a, crop, win):
        import z3 as _z3
        n_il, n_xl, n_s = T.dims
        ad = a[0]
        c = b_and(ad >= 0, ad < n_il + n_xl - 1)
        if c is False:
            return False
        if is_sym(ad):
            t = ad.t
            i0 = _z3.If(t < n_xl, _z3.IntVal(0), t - n_xl + 1)
            x0 = _z3.If(t < n_xl, t, _z3.IntVal(n_xl - 1))
            la, lb = n_il - i0, x0 + 1
            ln = mk(_z3.If(la < lb, la, lb))
        else:
            ln = _ad_len(ad, n_il, n_xl)
        k = 1
        if crop:
            c = b_and(c, in_box(a[1], a[2], ln))
            k = 3
        if win:
            c = b_and(c, in_box(a[k], a[k + 1], n_s))
        return c

    for crop, win, nm, argn in ((False, False, 'read_anticorrelated_diagonal', ['ad']),
                                (True, False, 'read_anticorrelated_diagonal_crop', ['ad', 'min_ad', 'max_ad']),
                                (True, True, 'read_anticorrelated_diagonal_crop_win', ['ad', 'min_ad', 'max_ad', 'min_s', 'max_s'])):
        def call(r, a, crop=crop, win=win):
            kw = {}
            k = 1
            if crop:
                kw.update(min_ad_idx=a[1], max_ad_idx=a[2])
                k = 3
            if win:
                kw.update(min_sample_idx=a[k], max_sample_idx=a[k + 1])
            return r.read_anticorrelated_diagonal(a[0], **kw)
        ms.append(M(nm, argn, call, lambda T, a, crop=crop, win=win: ad_inr(T, a, crop, win),
                    lambda T, a, crop=crop, win=win: ad_parts(T, a, crop, win), needs=['nil', 'nxl']))

    # ---- by line number / coordinate (axes: start symbolic, step concrete)
    def axis_index(no, start, step, n):
        """index of coordinate `no` in axis start + k*step (k<n), or None."""
        d = no - start
        if d % step != 0:
            return None
        k = d // step
        if b_or(k < 0, k >= n):
            return None
        return k

    def axis_inr(no, start, step, n):
        d = no - start
        return b_and(d % step == 0, d // step >= 0, d // step < n)

    ms.append(M('read_inline_number', ['il_no'], lambda r, a: r.read_inline_number(a[0]),
                lambda T, a: axis_inr(a[0], T.il0, T.il_step, T.dims[0]),
                lambda T, a: (lambda k: None if k is None else ((T.dims[1], T.dims[2]), lambda q: (k, q[0], q[1])))(axis_index(a[0], T.il0, T.il_step, T.dims[0])),
                needs=['nil']))
    ms.append(M('read_crossline_number', ['xl_no'], lambda r, a: r.read_crossline_number(a[0]),
                lambda T, a: axis_inr(a[0], T.xl0, T.xl_step, T.dims[1]),
                lambda T, a: (lambda k: None if k is None else ((T.dims[0], T.dims[2]), lambda q: (q[0], k, q[1])))(axis_index(a[0], T.xl0, T.xl_step, T.dims[1])),
                needs=['nxl']))
    return ms


def methods_2d():
    ms = []

    def sp_denote(T, a):
        s0, c0 = py_slice(a[0], a[1], T.dims[0])
        s1, c1 = py_slice(a[2], a[3], T.dims[1])
        return ((c0, c1), lambda q: (s0 + q[0], s1 + q[1]))
    ms.append(M('read_subplane', ['min_t', 'max_t', 'min_z', 'max_z'], lambda r, a: r.read_subplane(*a),
                lambda T, a: b_and(in_box(a[0], a[1], T.dims[0]), in_box(a[2], a[3], T.dims[1])), sp_denote, dim=2))
    ms.append(M('get_trace_2d', ['index'], lambda r, a: r.get_trace(a[0]),
                lambda T, a: b_and(a[0] >= 0, a[0] < T.dims[0]),
                lambda T, a: (lambda k: None if k is None else ((T.dims[1],), lambda q: (k, q[0])))(py_wrap(a[0], T.dims[0])),
                dim=2))
    # volume-style calls must be refused on 2D files
    for nm, nargs, f in (('read_inline', 1, lambda r, a: r.read_inline(a[0])),
                         ('read_crossline', 1, lambda r, a: r.read_crossline(a[0])),
                         ('read_zslice', 1, lambda r, a: r.read_zslice(a[0])),
                         ('read_subvolume', 6, lambda r, a: r.read_subvolume(*a)),
                         ('read_correlated_diagonal', 1, lambda r, a: r.read_correlated_diagonal(a[0])),
                         ('read_anticorrelated_diagonal', 1, lambda r, a: r.read_anticorrelated_diagonal(a[0]))):
        ms.append(M('2d_refuses_' + nm, ['a%d' % k for k in range(nargs)], f, lambda T, a: False,
                    lambda T, a: None, dim=2, kind='refuse'))
    return ms


def expect_header_value(E, T, got, j, tr, msg):
    """Obligation: `got` is the little-endian int32 stored at element `tr` of the j-th footer array of file T."""
    if not (isinstance(got, tuple) and len(got) == 2 and got[0] == 'badint'):
        return E.check(False, msg + ': value is not a stored int32 (%s)' % (got[0] if isinstance(got, tuple) and got else type(got).__name__))
    leaf = got[1]
    if leaf[0] != 'file' or leaf[1] != T.fid:
        return E.check(False, msg + ': bytes are not file bytes (%s)' % leaf[0])
    off = spec.HEADER_BYTES + T.data_len + j * T.stride + 4 * tr
    return E.check(leaf[2] == off, msg)


def header_methods(dim):
    """Header accessors (need a file with stored arrays: opts['stored'])."""
    ms = []

    def ntr(T):
        return T.n_traces

    def verify_header(E, T, a, res, label):
        import segyio
        if not isinstance(res, dict):
            return E.check(False, label + ': result is not a dict')
        for f in spec.TRACE_FIELDS:
            v = res[segyio.tracefield.TraceField(f)]
            if f in T.stored:
                expect_header_value(E, T, v, sorted(T.stored).index(f), a[0], label + ': stored field is the int32 of that trace in its footer array')
            else:
                E.check(v == 0, label + ': constant field equals the table constant')

    ms.append(M('gen_trace_header', ['index'], lambda r, a: r.gen_trace_header(a[0]),
                lambda T, a: b_and(a[0] >= 0, a[0] < ntr(T)), None, dim=dim, kind='header'))
    ms[-1].verify = verify_header
    ms.append(M('gen_trace_header_all', ['index'], lambda r, a: r.gen_trace_header(a[0], load_all_headers=True),
                lambda T, a: b_and(a[0] >= 0, a[0] < ntr(T)), None, dim=dim, kind='header'))
    ms[-1].verify = verify_header
    # negative ordinals through load_all_headers index a numpy array: Python semantics would denote trace n+index,
    # the API documents an ordinal: only [0, n) is in range

    def verify_field(E, T, a, res, label, fieldpos=0):
        f = sorted(T.stored)[fieldpos]
        if not isinstance(res, LazyArr):
            return E.check(False, label + ': result is not an array')
        shape = (T.dims[0], T.dims[1]) if dim == 3 else (T.dims[0],)
        if len(res.shape) != len(shape):
            return E.check(False, label + ': result has %d axes' % len(res.shape))
        E.check(b_and(*[rs == es for rs, es in zip(res.shape, shape)]), label + ': result shape')
        q = []
        for k, sh in enumerate(shape):
            qq = E.fresh('q%d' % k)
            E.assume(b_and(qq >= 0, qq < sh, qq < res.shape[k]))
            q.append(qq)
        tr = q[0] * T.dims[1] + q[1] if dim == 3 else q[0]
        expect_header_value(E, T, res.get(tuple(q)), fieldpos, tr, label + ': element is the int32 of that trace in the footer array')

    for pos in (0, 1):
        ms.append(M('get_tracefield_values_%d' % pos, [], (lambda r, a, pos=pos: r.get_tracefield_values(sorted(r._verif_stored)[pos])),
                    lambda T, a: True, None, dim=dim, kind='header'))
        ms[-1].verify = (lambda E, T, a, res, label, pos=pos: verify_field(E, T, a, res, label, pos))
    return ms


def irregular_methods():
    """Trace / header ordinals on an irregular 3D file: ordinal i is the i-th populated grid position (T.present)."""
    ms = []

    def grid_of(T, k):
        from shims.lazyarr import _pick
        return _pick(T.present, k)

    def tr_denote(T, a):
        k = py_wrap(a[0], len(T.present))
        if k is None:
            return None
        g = grid_of(T, k)
        il, xl = g // T.dims[1], g % T.dims[1]
        return ((T.dims[2],), lambda q: (il, xl, q[0]))
    ms.append(M('get_trace_irregular', ['index'], lambda r, a: r.get_trace(a[0]),
                lambda T, a: b_and(a[0] >= 0, a[0] < len(T.present)), tr_denote, needs=['nil', 'nxl']))

    def verify_header(E, T, a, res, label):
        import segyio
        g = grid_of(T, a[0])
        for f in sorted(T.stored):
            v = res[segyio.tracefield.TraceField(f)]
            if f in T.footer_arrays:
                E.check((not isinstance(v, tuple)) and implied(v == T.footer_arrays[f].get((g,))), label + ': header i is that of the i-th populated grid position')
            else:
                expect_header_value(E, T, v, sorted(T.stored).index(f), g, label + ': stored field of the i-th populated position')
    m = M('gen_trace_header_irregular', ['index'], lambda r, a: r.gen_trace_header(a[0]),
          lambda T, a: b_and(a[0] >= 0, a[0] < len(T.present)), None, kind='header', needs=['nil', 'nxl'])
    m.verify = verify_header
    m.ntr = lambda T: len(T.present)
    ms.append(m)
    return ms


METHODS = {m.name: m for m in methods_3d() + header_methods(3) + irregular_methods()}
METHODS_2D = {m.name: m for m in methods_2d() + [m for m in header_methods(2)]}
for _m in list(METHODS_2D.values()):
    if _m.kind == 'header' and not _m.name.endswith('_2d'):
        METHODS_2D[_m.name + '_2d'] = _m
        del METHODS_2D[_m.name]
        _m.name = _m.name + '_2d'


def squeeze_expected(shape, vox):
    """numpy.squeeze of the expected result (drops axes of length 1; forks when symbolic)."""
    keep = [k for k, s in enumerate(shape) if not (s == 1)]
    if len(keep) == len(shape):
        return shape, vox
    nd = len(shape)

    def v2(q):
        full = [0] * nd
        for k, qq in zip(keep, q):
            full[k] = qq
        return vox(tuple(full))
    return tuple(shape[k] for k in keep), v2


def run_method(E, m, T, r, mode, after_call=None, args=None, excused=None):
    """Body of one path for method m on reader r of truth T. Returns nothing; obligations go to E."""
    mm = mods()
    Wrong = mm['utils'].WrongDimensionalityError
    a = args if args is not None else [E.fresh(n) for n in m.argn]
    inr = m.inr(T, a)
    if mode == 'in':
        E.assume(inr)
    elif mode == 'out':
        E.assume(b_not(inr))
    label = '%s[%s]' % (m.name, mode)
    try:
        with Quiet():
            res = m.call(r, a)
    except Exception as e:
        if excused is not None and excused():
            # an injected I/O fault / truncation fired: raising (anything) is the correct outcome
            E.reached(label + ':raised-after-fault')
            E.check(True, label + ': the call raised after the injected fault')
            return
        if not isinstance(e, (IndexError, Wrong)):
            E.reached(label + ':raised-other')
            if mode == 'in' or implied(inr):
                E.check(False, label + ': in-range call raised %s(%s)' % (type(e).__name__, str(e)[:60]))
            else:
                E.check(False, label + ': out-of-range call raised %s instead of IndexError' % type(e).__name__)
            if after_call:
                after_call(a, None)
            return
        E.reached(label + ':raised')
        if m.kind == 'refuse':
            E.check(isinstance(e, Wrong), label + ': 2D file refuses volume-style read with the dimensionality error')
        else:
            E.check(b_not(inr), label + ': raised %s although the arguments are in range' % type(e).__name__)
        if after_call:
            after_call(a, None)
        return
    if excused is not None and not excused() and excused.must_fire:
        raise Infeasible()      # the fault index lies beyond the reads of this call: not a fault scenario
    E.reached(label + ':returned')
    if m.kind == 'refuse':
        E.check(False, label + ': volume-style read on a 2D file returned')
        return
    if m.kind == 'header':
        if m.argn:
            k = py_wrap(a[0], m.ntr(T) if hasattr(m, 'ntr') else T.n_traces)      # a negative ordinal, where accepted, denotes trace n + index
            if k is None:
                E.check(False, label + ': returned although the arguments denote no real item')
                return
            a = [k] + list(a[1:])
        E.reached(label + ':probe')
        m.verify(E, T, a, res, label)
        if after_call:
            after_call(a, res)
        return
    verify_result(E, m, T, a, res, label)
    if after_call:
        after_call(a, res)


def verify_result(E, m, T, a, res, label, qprefix='q'):
    """Obligations: `res` is what numpy slicing of the decoded volume denotes for method m with arguments a."""
    d = m.denote(T, a)
    if d is None:
        E.check(False, label + ': returned although the arguments denote no real item')
        return
    shape, vox = d
    if not isinstance(res, LazyArr):
        E.check(False, label + ': result is not an array (%s)' % type(res).__name__)
        return
    if len(res.shape) != len(shape):
        # the API squeezes unit axes in some paths: compare squeezed forms
        shape, vox = squeeze_expected(shape, vox)
        res = res.squeeze()
    if len(res.shape) != len(shape):
        E.check(False, label + ': result has %d axes, expected %d' % (len(res.shape), len(shape)))
        return
    E.check(b_and(*[rs == es for rs, es in zip(res.shape, shape)]), label + ': result shape')
    q = []
    for k, s in enumerate(shape):
        qq = E.fresh('%s%d' % (qprefix, k))
        E.assume(b_and(qq >= 0, qq < s, qq < res.shape[k]))
        q.append(qq)
    E.reached(label + ':probe')
    got = res.get(tuple(q))
    v = vox(tuple(q))
    if m.dim == 3:
        expect_voxel_3d(E, T, got, v[0], v[1], v[2], label + ': element is the spec-decoded voxel')
    else:
        expect_voxel_2d(E, T, got, v[0], v[1], label + ': element is the spec-decoded sample')


def apply_holes(E, T, nholes):
    """Turn the symbolic 3D file T into an irregular one: the stored inline / crossline number arrays become concrete,
    with zeros at `nholes` grid positions chosen by the solver (enumerated), and the trace count drops accordingly."""
    n_grid = T.dims[0] * T.dims[1]
    hs = []
    for j in range(nholes):
        hs.append(int(E.fresh('hole%d' % j, 0 if not hs else hs[-1] + 1, n_grid - 1)))
    T.present = [g for g in range(n_grid) if g not in hs]
    nx = T.dims[1]
    T.footer_arrays = {
        189: LazyArr((n_grid,), (lambda idx, hs=tuple(hs), nx=nx: 0 if int(idx[0]) in hs else 10 + 2 * (int(idx[0]) // nx)), 'num', 'i4'),
        193: LazyArr((n_grid,), (lambda idx, hs=tuple(hs), nx=nx: 0 if int(idx[0]) in hs else 20 + 3 * (int(idx[0]) % nx)), 'num', 'i4')}
    T.tracecount = len(T.present)
    T.fields['tracecount'] = T.tracecount
    T.header[68:72] = pack_field('<I', T.tracecount)


def item_fn(method, bs, rate, nb, mode, opts=None):
    """Path function for one work item."""
    opts = opts or {}
    mm = mods()
    R = mm['read']
    from shims import lazyarr
    is2d = bs[0] == 1
    m = (METHODS_2D if is2d else METHODS)[method]

    def fn():
        E = eng()
        shenv.reset_ctx()
        lazyarr.ALWAYS_LAZY[0] = True
        if is2d:
            T = sym_sgz_2d(E, bs, rate, nb, version=opts.get('version', 'sym'), stored=opts.get('stored', ()))
        else:
            T = sym_sgz_3d(E, bs, rate, nb, version=opts.get('version', 'sym'), axes=opts.get('axes', 'sym'),
                           il_step=opts.get('il_step', 1), xl_step=opts.get('xl_step', 1), stored=opts.get('stored', ()))
            # a valid file's line axes fit in int32 (the spec stores int32 start/step)
            for a0, st, n in ((T.il0, T.il_step, T.dims[0]), (T.xl0, T.xl_step, T.dims[1])):
                if is_sym(a0):
                    last = a0 + (n - 1) * st
                    E.assume(b_and(last >= -2 ** 31, last <= 2 ** 31 - 1))
            cap = opts.get('dimcap')
            if cap is not None:
                # stated bound: enumerated dimensions only just above the last full block
                if 'nil' in m.needs:
                    E.assume(T.dims[0] <= max(2, (nb[0] - 1) * bs[0]) + cap)
                if 'nxl' in m.needs:
                    E.assume(T.dims[1] <= max(2, (nb[1] - 1) * bs[1]) + cap)
            if 'nil' in m.needs:
                T.dims = (int(T.dims[0]), T.dims[1], T.dims[2])
            if 'nxl' in m.needs:
                T.dims = (T.dims[0], int(T.dims[1]), T.dims[2])
            if opts.get('holes'):
                apply_holes(E, T, opts['holes'])
        st = make_store(T)
        if opts.get('truncate'):
            # the file is cut at an arbitrary byte length (C18): reads beyond the cut come back short / empty
            cut = E.fresh('cut', 0)
            E.assume(cut < st.content.length)
            st.content = LazyBytes(cut, [(0, cut, st.content.snapshot(), 0)], True)
            T.cut = cut
        fault = None
        excused = None
        if opts.get('fault'):
            fault = shenv.FaultPlan(E, opts['fault'], after_open=not opts.get('fault_in_open'), second=opts.get('fault2'))
        shenv.SyncExecutor.order = opts.get('executor_order', 'submit')
        f = shenv.ShimBlob(st, fault=fault) if opts.get('backend') == 'blob' else shenv.ShimFile(st, fault=fault)
        try:
            with Quiet():
                r = R.SgzReader(f, chunk_cache_size=opts.get('chunk_cache_size'), preload=bool(opts.get('preload')))
        except Exception as e:
            if (fault is not None and fault.fired) or opts.get('truncate'):
                E.reached('open:raised-after-fault')
                E.check(True, 'open raised on the faulty / truncated file')
                return
            raise
        r._verif_stored = tuple(opts.get('stored', ()))
        if fault is not None:
            fault.opened()
            excused = fault.excuse
        if opts.get('faulted_first_call'):
            # an earlier call of the same method on this reader met the fault (and should have raised); the OBSERVED call
            # runs without any fault and must return the true data (no state may survive the failed call)
            a0 = [E.fresh('f_' + n) for n in m.argn]
            E.assume(m.inr(T, a0))
            try:
                with Quiet():
                    m.call(r, a0)
            except Exception:
                pass
            if not fault.fired:
                raise Infeasible()
            fault.active = False
            excused = None
        if opts.get('truncate'):
            excused = shenv.Excuse(lambda: any(not implied(got == n) for (_, n, got) in st.reads), must_fire=False)
        if opts.get('warm'):
            # an arbitrary earlier in-range call of the same method (cache warm-up); only the second call is observed
            a0 = [E.fresh('w_' + n) for n in m.argn]
            E.assume(m.inr(T, a0))
            try:
                with Quiet():
                    m.call(r, a0)
            except Exception:
                pass
        n_init_reads = len(st.reads)
        hook = opts.get('after_call')
        run_method(E, m, T, r, mode, after_call=(lambda a, res: hook(E, m, T, r, st, n_init_reads, a, res)) if hook else None,
                   excused=excused)
    return fn
