"""C10 cropping / C12 re-blocking: file-to-file transformers run on a symbolic conforming SGZ file (abstract data and
footer bytes with provenance), then the real reader reads the OUTPUT file; the output's provenance must be the source's.

C10: SgzCropper.write_cropped_file_by_indexes / _by_coords with symbolic (possibly None) ranges on a source file of
concrete dimensions.  Oracle: box widened outward to blockshape multiples and clipped; header fields, axes, trace count,
structured flag, file length, footer arrays, every voxel and header value = those of the source at the shifted position;
invalid requests -> IndexError and no output file opened; a layout the cropper cannot re-address -> refused or right.
C12: SgzConverter.convert_to_adv_sgz: every real voxel keeps the same compressed cell bytes, header fields / hash /
footer arrays unchanged and conforming; unsupported inputs are refused.
"""
import sys
import time
from .common import *
from . import readers, writers
from .runner import Item, run_items, finish
from .replayer import replay
from symx.core import implied, b_not, SymBool, Infeasible, fx
from shims import lazyarr

ASSUMPTIONS = [
    "source: a conforming SGZ file of the stated concrete dimensions; data and footer bytes abstract ('file', offset); 3 stored header arrays",
    "range arguments: unbounded integers or None (symbolic presence); coordinate variants map through the real coord_to_index",
    "open(..., 'wb') goes to an in-memory file system stub that logs every open",
    "numpy / struct / zfpy stubs as in C02/C03",
]


def src_voxel_leaf_ok(E, T, prov, vox, msg):
    """prov (read from the OUTPUT file) decodes the source file's cell of source voxel `vox`."""
    return expect_voxel_3d(E, T, prov, vox[0], vox[1], vox[2], msg)


def crop_item(bs, rate, dims, opts):
    mm = mods()

    def fn():
        E = eng()
        shenv.reset_ctx()
        lazyarr.ALWAYS_LAZY[0] = True
        fs = shenv.ShimFS()
        shenv.install_writer_shims(mm, fs)
        nb = tuple((n + b - 1) // b for n, b in zip(dims, bs))
        stored = opts.get('stored', (73, 189, 193))
        il0, xl0 = opts.get('il0', 100), opts.get('xl0', 200)
        il_step, xl_step = opts.get('il_step', 1), opts.get('xl_step', 1)
        T = sym_sgz_3d(E, bs, rate, nb, version=opts.get('version', spec.encode_version(0, 2, 5, True)), axes=(il0, xl0), dims=dims, stored=stored,
                       il_step=il_step, xl_step=xl_step, fid='src')
        st = make_store(T, 'src.sgz')
        fs.add('src.sgz', st)
        Crop = mm['cropping'].SgzCropper
        with Quiet():
            c = Crop(shenv.ShimFile(st))
            if opts.get('pre') == 'tracefield':
                # the cropper object was used as a reader first (it is one): a bulk read of a non-first stored field
                c.get_tracefield_values(sorted(stored)[-1])
            elif opts.get('pre') == 'header':
                c.gen_trace_header(0, load_all_headers=True)
        # ranges: present or None, symbolic bounds
        rngs = []
        for k, name in enumerate(('il', 'xl', 'z')):
            mode = opts.get('ranges', ('sym', 'sym', 'sym'))[k]
            if mode is None:
                rngs.append(None)
            else:
                lo, hi = E.fresh('%s_lo' % name), E.fresh('%s_hi' % name)
                rngs.append((lo, hi))
        valid = True
        anyrange = any(r is not None for r in rngs)
        for k, r in enumerate(rngs):
            if r is not None:
                valid = b_and(valid, r[0] >= 0, r[0] < r[1], r[1] <= dims[k])
        valid = b_and(valid, anyrange)
        mode = opts.get('mode', 'valid')
        if mode == 'valid':
            E.assume(valid)
        else:
            E.assume(b_not(valid))
        n_open0 = len(fs.opened)
        label = 'crop[%s]' % mode
        try:
            with Quiet():
                c.write_cropped_file_by_indexes('out.sgz', rngs[0], rngs[1], rngs[2])
        except IndexError:
            E.reached(label + ':IndexError')
            E.check(b_not(valid), label + ': a valid request was refused with IndexError')
            E.check(not any(m.startswith('w') for (n, m) in fs.opened[n_open0:]), label + ': a refused request leaves no output file')
            return
        except Exception as e:
            E.reached(label + ':raised-other')
            if mode == 'valid':
                if opts.get('may_refuse'):
                    E.check(not any(m.startswith('w') for (n, m) in fs.opened[n_open0:]), label + ': a layout that cannot be re-addressed is refused before any output is opened')
                    return
                E.check(False, label + ': a valid request raised %s(%s)' % (type(e).__name__, str(e)[:60]))
            else:
                E.check(False, label + ': an invalid request raised %s instead of IndexError' % type(e).__name__)
            return
        E.reached(label + ':returned')
        if mode != 'valid':
            E.check(False, label + ': an invalid request (outside the cube / empty / inverted / no range) produced a file')
            return
        # expected box: widened outward to blockshape multiples, clipped
        box = []
        for k, r in enumerate(rngs):
            if r is None:
                box.append((0, dims[k]))
            else:
                lo = (r[0] // bs[k]) * bs[k]
                hi = ((r[1] + bs[k] - 1) // bs[k]) * bs[k]
                if hi > dims[k]:
                    hi = dims[k]
                box.append((fx(lo), fx(hi)))
        nd = tuple(fx(b[1] - b[0]) for b in box)
        out = fs.stores['out.sgz']
        part = opts.get('part', 'header')
        if part == 'header':
            exp = dict(n_il=nd[0], n_xl=nd[1], n_s=nd[2], bs=bs, rate=rate, tracecount=nd[0] * nd[1], stored=sorted(stored),
                       il0=il0 + box[0][0] * il_step, xl0=xl0 + box[1][0] * xl_step, il_step=il_step, xl_step=xl_step,
                       z0=T.z0 + box[2][0] * (T.interval_us // 1000), interval=T.interval_us, inherit_version=T.version)
            writers.check_container(E, out, exp, 'cropped')
            # SEG-Y binary header sample count (bytes 3220-3221 of the stored file header) follows the crop
            leaf = out.content.resolve(4096 + 3200 + 20, 2)
            from shims.lazybytes import unpack_leaf
            try:
                E.check(unpack_leaf('>H', leaf, 2) == nd[2], 'cropped: stored SEG-Y binary header states the cropped sample count')
            except Exception as e:
                E.check(False, 'cropped: stored SEG-Y binary header sample count unreadable (%s)' % type(e).__name__)
            return
        R = mm['read']
        with Quiet():
            r = R.SgzReader(shenv.ShimFile(out))
        if part == 'voxel':
            E.check(b_and(r.n_ilines == nd[0], r.n_xlines == nd[1], r.n_samples == nd[2]), 'cropped: dimensions are those of the block-aligned box')
            v = [E.fresh(n, 0) for n in ('i', 'x', 'z')]
            E.assume(b_and(*[v[k] < nd[k] for k in range(3)]))
            E.assume(b_and(v[0] < r.n_ilines, v[1] < r.n_xlines, v[2] < r.n_samples))
            with Quiet():
                vox = r.read_subvolume(v[0], v[0] + 1, v[1], v[1] + 1, v[2], v[2] + 1)
            E.reached('crop:probe')
            src_voxel_leaf_ok(E, T, vox.get((0, 0, 0)), tuple(box[k][0] + v[k] for k in range(3)), 'cropped: voxel equals the source voxel at the shifted position')
        if part == 'axes':
            E.reached('crop:axes')
            E.check(r.tracecount == nd[0] * nd[1], 'cropped: trace count equals the box')
            E.check(bool(r.structured) is True, 'cropped: file is structured')
            for name, ax, n, a0, stp, off in (('ilines', r.ilines, nd[0], il0, il_step, box[0][0]), ('xlines', r.xlines, nd[1], xl0, xl_step, box[1][0])):
                k = E.fresh('k_' + name, 0)
                E.assume(b_and(k < n, k < ax.shape[0]))
                E.check(b_and(ax.shape[0] == n, writers.aget(ax, k) == a0 + (off + k) * stp), 'cropped: %s are the sub-range of the source axis' % name)
            zs = r.zslices
            k = E.fresh('k_z', 0)
            E.assume(b_and(k < nd[2], k < zs.shape[0]))
            E.check(b_and(zs.shape[0] == nd[2], writers.aget(zs, k) == T.z0 + (box[2][0] + k) * (T.interval_us // 1000)), 'cropped: sample axis is the sub-range of the source axis')
        if part == 'trace-header':
            import segyio
            t = E.fresh('trace', 0)
            E.assume(t < nd[0] * nd[1])
            with Quiet():
                h = r.gen_trace_header(t)
            E.reached('crop:header')
            i, x = t // nd[1], t % nd[1]
            src_t = (box[0][0] + i) * dims[1] + (box[1][0] + x)
            for j, f in enumerate(sorted(stored)):
                readers.expect_header_value(E, T, h[segyio.tracefield.TraceField(f)], j, src_t, 'cropped: trace header field %d equals the source trace header' % f)
            with Quiet():
                g = r.get_tracefield_values(sorted(stored)[1])
            q = [E.fresh('g0', 0), E.fresh('g1', 0)]
            E.assume(b_and(q[0] < nd[0], q[1] < nd[1], q[0] < g.shape[0], q[1] < g.shape[1]))
            E.check(b_and(g.shape[0] == nd[0], g.shape[1] == nd[1]), 'cropped: tracefield array has the shape of the box')
            readers.expect_header_value(E, T, g.get(tuple(q)), 1, (box[0][0] + q[0]) * dims[1] + (box[1][0] + q[1]),
                                        'cropped: tracefield array equals the source array restricted to the box')
    return fn


def reblock_item(dims, opts):
    """convert_to_adv_sgz on a default-layout 2-bit file of concrete dims."""
    mm = mods()
    bs, rate = opts.get('bs', (4, 4, 1024)), opts.get('rate', 2)

    def fn():
        E = eng()
        shenv.reset_ctx()
        lazyarr.ALWAYS_LAZY[0] = True
        fs = shenv.ShimFS()
        shenv.install_writer_shims(mm, fs)
        nb = tuple((n + b - 1) // b for n, b in zip(dims, bs))
        stored = opts.get('stored', (73, 189, 193))
        T = sym_sgz_3d(E, bs, rate, nb, version=opts.get('version', spec.encode_version(0, 2, 5, True)), axes=(100, 200), dims=dims, stored=stored, fid='src')
        T.header[960:980] = LazyBytes.of(shenv.TagSrc(('srchash',)), 20)
        holes = list(opts.get('holes', ()))
        if holes:
            n_grid = dims[0] * dims[1]
            T.present = [g for g in range(n_grid) if g not in holes]
            nx = dims[1]
            T.footer_arrays = {189: LazyArr((n_grid,), (lambda idx: 0 if int(idx[0]) in holes else 10 + 2 * (int(idx[0]) // nx)), 'num', 'i4'),
                               193: LazyArr((n_grid,), (lambda idx: 0 if int(idx[0]) in holes else 20 + 3 * (int(idx[0]) % nx)), 'num', 'i4')}
            T.tracecount = len(T.present)
            T.fields['tracecount'] = T.tracecount
            T.header[68:72] = pack_field('<I', T.tracecount)
        st = make_store(T, 'src.sgz')
        fs.add('src.sgz', st)
        Conv = mm['conversion'].SgzConverter
        supported = (rate == 2 and bs == (4, 4, 1024))
        n_open0 = len(fs.opened)
        try:
            with Quiet():
                c = Conv(shenv.ShimFile(st))
                c.convert_to_adv_sgz('out.sgz')
        except Exception as e:
            E.reached('reblock:raised')
            E.check(not supported, 'reblock: a supported input raised %s(%s)' % (type(e).__name__, str(e)[:60]))
            E.check(not any(m.startswith('w') for (n, m) in fs.opened[n_open0:]), 'reblock: a refused input leaves no output')
            return
        E.reached('reblock:returned')
        if not supported:
            E.check(False, 'reblock: an unsupported input (rate %s, blockshape %s) was converted instead of refused' % (rate, bs))
            return
        out = fs.stores['out.sgz']
        part = opts.get('part', 'header')
        nbs = (64, 64, 4)
        if part == 'header':
            exp = dict(n_il=dims[0], n_xl=dims[1], n_s=dims[2], bs=nbs, rate=2, tracecount=T.tracecount, stored=sorted(stored),
                       il0=100, xl0=200, il_step=1, xl_step=1, z0=T.z0, interval=T.interval_us, inherit_version=T.version)
            writers.check_container(E, out, exp, 'reblocked')
            leaf = out.content.resolve(960, 20)
            E.check(leaf[0] == ('srchash',) and implied(leaf[1] == 0) if isinstance(leaf[0], tuple) else False, 'reblocked: source-data hash bytes are carried unchanged')
            return
        R = mm['read']
        with Quiet():
            r = R.SgzReader(shenv.ShimFile(out))
        if part == 'voxel':
            v = [E.fresh(n, 0) for n in ('i', 'x', 'z')]
            E.assume(b_and(*[v[k] < dims[k] for k in range(3)]))
            if opts.get('probe_hi'):
                E.assume(b_or(v[0] >= dims[0] - 8, v[1] >= dims[1] - 8))
            with Quiet():
                vox = r.read_subvolume(v[0], v[0] + 1, v[1], v[1] + 1, v[2], v[2] + 1)
            E.reached('reblock:probe')
            src_voxel_leaf_ok(E, T, vox.get((0, 0, 0)), v, 'reblocked: every real voxel decodes the same compressed cell as in the source')
        if part == 'trace-header':
            import segyio
            t = E.fresh('trace', 0)
            E.assume(t < T.tracecount)
            with Quiet():
                h = r.gen_trace_header(t)
            E.reached('reblock:header')
            g = t
            if holes:
                from shims.lazyarr import _pick
                g = _pick(T.present, t)      # ordinal -> grid position through the population mask
            for j, f in enumerate(sorted(stored)):
                v = h[segyio.tracefield.TraceField(f)]
                if holes and f in T.footer_arrays:
                    E.check((not isinstance(v, tuple)) and implied(v == T.footer_arrays[f].get((g,))), 'reblocked: trace header field %d unchanged' % f)
                else:
                    readers.expect_header_value(E, T, v, j, g, 'reblocked: trace header field %d unchanged' % f)
    return fn


def items_for(prop, tier):
    items = []
    quick = tier == 'quick'
    if prop == 'C10':
        cfgs = []
        src = [((4, 4, 256), 8, (9, 10, 300))] if quick else [((4, 4, 256), 8, (9, 10, 300)), ((4, 4, 1024), 2, (7, 13, 1100)), ((4, 4, 64), 32, (8, 8, 130))]
        for bs, rate, dims in src:
            for part in ('header', 'voxel', 'axes', 'trace-header'):
                for ranges in (('sym', 'sym', 'sym'), ('sym', None, None), (None, 'sym', None), (None, None, 'sym')):
                    if quick and part in ('axes', 'trace-header') and ranges != ('sym', 'sym', 'sym') and ranges != ('sym', None, None):
                        continue
                    cfgs.append((bs, rate, dims, dict(part=part, ranges=ranges, mode='valid')))
            cfgs.append((bs, rate, dims, dict(ranges=('sym', 'sym', 'sym'), mode='invalid')))
            cfgs.append((bs, rate, dims, dict(ranges=('sym', None, None), mode='invalid')))
            cfgs.append((bs, rate, dims, dict(ranges=(None, None, None), mode='invalid')))
        for pre in ('tracefield', 'header'):
            cfgs.append(((4, 4, 256), 8, (9, 10, 300), dict(part='trace-header', ranges=('sym', None, None), mode='valid', pre=pre)))
        # axes with non-unit / negative steps and negative line numbers; old footer convention
        cfgs.append(((4, 4, 256), 8, (9, 10, 300), dict(part='axes', ranges=('sym', 'sym', None), mode='valid', il_step=2, xl_step=-3, il0=-50, xl0=40)))
        cfgs.append(((4, 4, 256), 8, (9, 10, 300), dict(part='header', ranges=('sym', 'sym', None), mode='valid', il_step=2, xl_step=-3, il0=-50, xl0=40)))
        cfgs.append(((4, 4, 256), 8, (9, 10, 300), dict(part='trace-header', ranges=('sym', 'sym', None), mode='valid', version=spec.encode_version(0, 1, 9, True))))
        # layouts other than (4,4,.): refused, or right
        for bs, rate, dims in [((8, 8, 64), 8, (17, 18, 130)), ((64, 64, 4), 2, (70, 65, 9))] + ([] if quick else [((4, 8, 128), 8, (9, 17, 260)), ((16, 16, 16), 8, (33, 20, 40))]):
            for part in ('voxel', 'header'):
                cfgs.append((bs, rate, dims, dict(part=part, ranges=('sym', 'sym', 'sym'), mode='valid', may_refuse=True)))
        for bs, rate, dims, o in cfgs:
            desc = 'crop|bs=%s|rate=%s|dims=%s|%s' % ('x'.join(map(str, bs)), rate, 'x'.join(map(str, dims)), ','.join('%s=%s' % kv for kv in sorted(o.items())))
            it = Item(desc, (lambda bs=bs, rate=rate, dims=dims, o=o: crop_item(bs, rate, dims, o)), timeout_s=250 if quick else 600)
            it.meta = dict(kind='crop', bs=list(bs), rate=rate, dims=list(dims), opts=dict(o))
            items.append(it)
    else:
        cfgs = []
        shapes = [(5, 5, 8), (8, 9, 6), (64, 64, 4), (65, 7, 5), (7, 66, 4), (68, 70, 4)] if quick else \
            [(5, 5, 8), (8, 9, 6), (4, 4, 4), (64, 64, 4), (65, 7, 5), (7, 66, 4), (68, 70, 4), (128, 5, 4), (130, 67, 4), (12, 16, 9), (60, 61, 4)]
        for dims in shapes:
            for part in ('header', 'voxel', 'trace-header'):
                if part == 'trace-header' and dims not in ((5, 5, 8), (8, 9, 6)):
                    continue
                cfgs.append((dims, dict(part=part)))
        cfgs.append(((8, 9, 6), dict(part='header', version=spec.encode_version(0, 1, 9, True))))
        cfgs.append(((8, 9, 6), dict(part='header', version=spec.encode_version(0, 1, 5, True))))
        # irregular source (population mask from the inline-number array): footer arrays keep one value per grid position
        cfgs.append(((5, 26, 5), dict(part='header', holes=(3, 40, 77))))
        cfgs.append(((5, 5, 8), dict(part='trace-header', holes=(7,))))
        cfgs.append(((5, 9, 1028), dict(part='voxel')))      # more than one 4x4x1024 source block per trace column
        if not quick:
            cfgs.append(((5, 9, 1028), dict(part='header')))
            cfgs.append(((66, 5, 2049), dict(part='voxel')))
        cfgs.append(((5, 5, 8), dict(part='header', stored=())))
        # unsupported inputs must be refused
        cfgs.append(((5, 5, 8), dict(bs=(4, 4, 512), rate=4)))
        cfgs.append(((5, 5, 8), dict(bs=(16, 16, 64), rate=2)))
        cfgs.append(((5, 5, 8), dict(bs=(64, 64, 4), rate=2)))
        for dims, o in cfgs:
            desc = 'reblock|dims=%s|%s' % ('x'.join(map(str, dims)), ','.join('%s=%s' % kv for kv in sorted(o.items())))
            it = Item(desc, (lambda dims=dims, o=o: reblock_item(dims, o)), timeout_s=(120 if dims[2] > 1024 else 300) if quick else 700)
            it.meta = dict(kind='reblock', dims=list(dims), opts=dict(o))
            items.append(it)
    return items


def replay_candidate(it, c):
    meta = it.meta
    return replay(dict(kind=meta['kind'], bs=meta.get('bs'), rate=meta.get('rate'), dims=meta['dims'], opts=meta['opts'], model=c['model'],
                       obligation=c['msg'], handlers=['replay.transform']))


def main(prop, tier, only=None):
    t0 = time.time()
    items = items_for(prop, tier)
    if only:
        items = [i for i in items if only in i.desc]
    results = run_items(items)
    bounds = dict(source_dims='concrete cubes listed in the work items (every residue of each range bound is symbolic)',
                  ranges='unbounded integers / None')
    return finish(prop, tier, t0, results, items, ASSUMPTIONS, bounds, replay_fn=replay_candidate)


if __name__ == '__main__':
    sys.exit(main(sys.argv[1], sys.argv[2] if len(sys.argv) > 2 else 'quick', sys.argv[3] if len(sys.argv) > 3 else None))
