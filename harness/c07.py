"""C07 I/O proportionality: the (offset, length) terms of every range read the real reader issues, vs the spec's
block model.  Runs the reader harness (harness/readers.py) with an after-call hook over the I/O log.

Obligations per call (arguments in range, symbolic):
  * every read issued after open lies inside the data section;
  * for an arbitrary symbolic byte p of any logged read, the 4 KiB block containing p holds a cell whose voxel box
    intersects the request (block-intersection predicate from models/spec.py);
  * any two logged ranges of one call are disjoint (no byte fetched twice);
  * opening touches only the header blocks; preload: exactly one read of the whole data section at open, none after;
  * gen_trace_header on a regular file: exactly one 4-byte read per stored array at the spec's footer offset;
  * warm: the same obligations on a second call after an arbitrary first call of the same method.
"""
import sys
import time

from .common import *
from . import readers
from .runner import Item, run_items, finish
from .replayer import replay
from symx.core import implied, b_not, SymBool, tobool, mkbool

ASSUMPTIONS = [
    "file: any SGZ file conforming to docs/file-specification.md (symbolic dimensions within the block bound, layouts enumerated)",
    "every range read goes through file.seek/read (local) or download_blob(offset, length).readall() (blob); the stub file logs (offset, requested length) as z3 terms",
    "request = bounding box of the call (per-trace boxes for diagonals); a block is 'needed' iff its voxel box intersects the request",
    "ThreadPoolExecutor stub runs tasks at submit (order of parallel reads is irrelevant to the set of ranges)",
    "numpy / zfpy stubs as in C02 (values are not the subject here)",
]


def block_coords_3d(T, p):
    """(bi, bx, bz) of the 4 KiB block containing file byte p (spec order il-block, xl-block, z-block)."""
    nbx, nbz = T.pad[1] // T.bs[1], T.pad[2] // T.bs[2]
    blk = (p - spec.HEADER_BYTES) // spec.DISK_BLOCK
    return blk // (nbx * nbz), (blk // nbz) % nbx, blk % nbz


def block_coords_2d(T, p):
    nbz = T.pad[1] // T.bs[2]
    blk = (p - spec.HEADER_BYTES) // spec.DISK_BLOCK
    return blk // nbz, blk % nbz


def boxes_of(m, T, a):
    """List of inclusive voxel boxes [(lo..), (hi..)] whose union is the request."""
    d = m.denote(T, a)
    if d is None:
        return None
    shape, vox = d
    nd = len(shape)
    if 'diagonal' in m.name:
        cnt = shape[0]
        cnt = int(cnt)
        out = []
        for k in range(cnt):
            out.append((vox((k, 0)), vox((k, shape[1] - 1))))
        return out
    lo = vox(tuple(0 for _ in shape))
    hi = vox(tuple(s - 1 for s in shape))
    return [(lo, hi)]


def needed_block(T, m, coords, boxes):
    """SymBool: the block with coordinates `coords` intersects one of the boxes."""
    if m.dim == 3:
        bsz = T.bs
    else:
        bsz = (T.bs[1], T.bs[2])
    alts = []
    for lo, hi in boxes:
        c = True
        for k in range(len(coords)):
            c = b_and(c, coords[k] * bsz[k] <= hi[k], (coords[k] + 1) * bsz[k] > lo[k])
        alts.append(c)
    return b_or(*alts)


def io_hook(opts):
    def hook(E, m, T, r, st, n_init, a, res):
        if res is None:
            return      # the call raised: C02/C14's subject
        label = 'io:' + m.name
        reads = st.reads[n_init:]
        data_lo = spec.HEADER_BYTES
        data_hi = spec.HEADER_BYTES + T.data_len
        if opts.get('preload'):
            E.reached(label + ':preload')
            E.check(len(reads) == 0, label + ': with preload no range read is issued after open (%d issued)' % len(reads))
            return
        boxes = boxes_of(m, T, a)
        E.reached(label + ':log')
        p = E.fresh('p')
        for k, (pos, n, got) in enumerate(reads[:opts.get('max_reads', 64)]):
            E.check(b_and(pos >= data_lo, pos + n <= data_hi, n > 0), label + ': range read lies inside the data section')
            inr = b_and(p >= pos, p < pos + n)
            coords = block_coords_3d(T, p) if m.dim == 3 else block_coords_2d(T, p)
            need = needed_block(T, m, coords, boxes)
            E.check(b_or(b_not(inr), need), label + ': every fetched byte lies in a 4 KiB block that intersects the request')
        rs = reads[:opts.get('max_pairs', 40)]
        for i in range(len(rs)):
            for j in range(i + 1, len(rs)):
                (p1, n1, _), (p2, n2, _) = rs[i], rs[j]
                E.check(b_or(p1 + n1 <= p2, p2 + n2 <= p1), label + ': no byte is fetched twice within one call')
        if len(reads) > opts.get('max_reads', 64):
            E.path_notes.append('io log truncated')
    return hook


def open_item(bs, rate, nb, preload, backend='file'):
    """Opening a reader touches only the header blocks (+ with preload exactly one read of the data section)."""
    mm = mods()
    R = mm['read']
    from shims import lazyarr
    is2d = bs[0] == 1

    def fn():
        E = eng()
        shenv.reset_ctx()
        lazyarr.ALWAYS_LAZY[0] = True
        T = sym_sgz_2d(E, bs, rate, nb, version=spec.encode_version(0, 2, 5, True)) if is2d else \
            sym_sgz_3d(E, bs, rate, nb, version=spec.encode_version(0, 2, 5, True), axes=(1, 1))
        st = make_store(T)
        f = shenv.ShimBlob(st) if backend == 'blob' else shenv.ShimFile(st)
        with Quiet():
            r = R.SgzReader(f, preload=preload)
        E.reached('open')
        reads = list(st.reads)
        hdr = [x for x in reads if implied(x[0] + x[1] <= spec.HEADER_BYTES)]
        rest = [x for x in reads if not implied(x[0] + x[1] <= spec.HEADER_BYTES)]
        if not preload:
            E.check(len(rest) == 0, 'open: only header blocks are read (%d other reads)' % len(rest))
        else:
            E.check(len(rest) == 1, 'open+preload: exactly one read beyond the header (%d)' % len(rest))
            if len(rest) == 1:
                pos, n, got = rest[0]
                E.check(b_and(pos == spec.HEADER_BYTES, n == T.data_len), 'open+preload: that read is exactly the data section')
        for pos, n, got in hdr:
            E.check(b_and(pos >= 0, pos + n <= spec.HEADER_BYTES), 'open: header read inside the header blocks')
    return fn


def header_item(bs, rate, nb, stored, version, backend='file', pre=None):
    """gen_trace_header(i) on a regular file: one 4-byte read per stored array at the spec's footer offset."""
    mm = mods()
    R = mm['read']
    from shims import lazyarr

    def fn():
        E = eng()
        shenv.reset_ctx()
        lazyarr.ALWAYS_LAZY[0] = True
        T = sym_sgz_3d(E, bs, rate, nb, version=version, axes=(1, 1), stored=stored)
        st = make_store(T)
        f = shenv.ShimBlob(st) if backend == 'blob' else shenv.ShimFile(st)
        with Quiet():
            r = R.SgzReader(f)
        if pre == 'tracefield':
            # an earlier bulk read of one stored array (documented API) must not change the cost of a header
            with Quiet():
                r.get_tracefield_values(stored[0])
        elif pre == 'header':
            j = E.fresh('w_index')
            E.assume(b_and(j >= 0, j < T.n_traces))
            with Quiet():
                r.gen_trace_header(j)
        n0 = len(st.reads)
        i = E.fresh('index')
        E.assume(b_and(i >= 0, i < T.n_traces))
        with Quiet():
            h = r.gen_trace_header(i)
        E.reached('gen_trace_header')
        reads = st.reads[n0:]
        E.check(len(reads) == len(stored), 'gen_trace_header: one read per stored array (%d reads, %d arrays)' % (len(reads), len(stored)))
        base = spec.HEADER_BYTES + T.data_len
        stride = T.stride
        for k, (pos, n, got) in enumerate(reads):
            E.check(b_and(n == 4, pos == base + k * stride + 4 * i), 'gen_trace_header: 4-byte read at the footer offset of array %d' % k)
    return fn


def items_for(tier):
    items = []
    v025 = spec.encode_version(0, 2, 5, True)
    lay3 = QUICK_3D if tier == 'quick' else thorough_layouts_3d()
    lay2 = QUICK_2D if tier == 'quick' else thorough_layouts_2d()
    rot = [(2, 2, 1), (1, 2, 2), (2, 1, 2)]
    vol = ['read_inline', 'read_crossline', 'read_zslice', 'read_subvolume']
    for li, (bs, rate) in enumerate(lay3):
        if tier == 'quick':
            nbs = [(2, 2, 2)] if (bs[0] == 4 and bs[1] == 4) else [rot[li % 3]]
        else:
            nbs = [(2, 2, 2), (3, 2, 1)]
        for nb in nbs:
            for mname in vol:
                if tier == 'quick' and bs[0] >= 128 and mname == 'read_zslice':
                    continue      # 1024 range reads per call: thorough tier only
                items.append(mk_item(mname, bs, rate, nb, tier))
    tr_layouts = [((4, 4, 256), 8), ((8, 8, 64), 8), ((4, 8, 128), 8)] if tier == 'quick' else \
        [l for l in lay3 if l[0][0] <= 8 and l[0][1] <= 8]
    for (bs, rate) in tr_layouts:
        for mname in ['get_trace', 'get_trace_window']:
            items.append(mk_item(mname, bs, rate, (2, 2, 2), tier, dict(dimcap=2 if tier == 'quick' else 4)))
            if bs == (4, 4, 256) or tier != 'quick':
                items.append(mk_item(mname, bs, rate, (2, 2, 2), tier, dict(dimcap=1, warm=True)))
    for (bs, rate) in ([((4, 4, 256), 8)] if tier == 'quick' else [((4, 4, 256), 8), ((8, 8, 64), 8), ((4, 4, 1024), 2)]):
        for mname in ['read_correlated_diagonal', 'read_anticorrelated_diagonal', 'read_correlated_diagonal_crop_win',
                      'read_anticorrelated_diagonal_crop_win']:
            items.append(mk_item(mname, bs, rate, (2, 2, 1), tier, dict(dimcap=1 if tier == 'quick' else 3)))
            if tier != 'quick':
                items.append(mk_item(mname, bs, rate, (2, 2, 1), tier, dict(dimcap=2, chunk_cache_size=1)))
    for (bs, rate) in lay2:
        for nb in ([(3, 2)] if tier == 'quick' else [(1, 1), (2, 2), (3, 2), (2, 3)]):
            if nb[1] * bs[2] > 2 ** 17:
                continue
            for mname in ['read_subplane', 'get_trace_2d']:
                items.append(mk_item(mname, bs, rate, nb, tier))
    # preload / blob / warm variants on representative layouts
    rep = [((4, 4, 256), 8), ((64, 64, 4), 2), ((8, 8, 64), 8), ((1, 16, 256), 8), ((1, 4, 1024), 8)]
    if tier != 'quick':
        rep += [((4, 4, 8192), 0.25), ((16, 16, 16), 8), ((128, 128, 4), 0.5), ((1, 64, 64), 8)]
    for bs, rate in rep:
        nb = (2, 2) if bs[0] == 1 else ((2, 2, 2) if bs[0] == 4 else (2, 2, 1))
        names = ['read_subplane', 'get_trace_2d'] if bs[0] == 1 else vol
        for mname in names:
            items.append(mk_item(mname, bs, rate, nb, tier, dict(preload=True)))
            items.append(mk_item(mname, bs, rate, nb, tier, dict(backend='blob')))
            if tier != 'quick' or mname != 'read_subvolume':
                items.append(mk_item(mname, bs, rate, nb, tier, dict(warm=True)))
        for preload in (False, True):
            for backend in ('file', 'blob'):
                it = Item('open|bs=%s|rate=%s|preload=%s|%s' % ('x'.join(map(str, bs)), rate, preload, backend),
                          (lambda bs=bs, rate=rate, nb=nb, preload=preload, backend=backend: open_item(bs, rate, nb, preload, backend)),
                          timeout_s=120)
                it.meta = dict(kind='open')
                items.append(it)
    for bs, rate in [((4, 4, 256), 8), ((8, 8, 64), 8)]:
        for stored in ([(189, 193), (73, 189, 193)] if tier != 'quick' else [(73, 189, 193)]):
            for ver in (v025, spec.encode_version(0, 1, 9, True)):
                for backend, pre in (('file', None), ('blob', None), ('file', 'tracefield'), ('file', 'header')):
                    it = Item('gen_trace_header|bs=%s|stored=%s|version=%s|%s|pre=%s' % ('x'.join(map(str, bs)), '+'.join(map(str, stored)), ver, backend, pre),
                              (lambda bs=bs, rate=rate, stored=stored, ver=ver, backend=backend, pre=pre: header_item(bs, rate, (2, 2, 1), stored, ver, backend, pre)),
                              timeout_s=120)
                    it.meta = dict(kind='header', bs=list(bs), rate=rate, stored=list(stored), version=ver, pre=pre)
                    items.append(it)
    return items


def mk_item(mname, bs, rate, nb, tier, opts=None):
    opts = dict(opts or {})
    opts.setdefault('version', spec.encode_version(0, 2, 5, True))
    opts.setdefault('axes', (1, 1))
    o2 = dict(opts)
    o2['after_call'] = io_hook(opts)
    desc = 'io|%s|bs=%s|rate=%s|nb=%s' % (mname, 'x'.join(map(str, bs)), rate, 'x'.join(map(str, nb)))
    for k in ('preload', 'backend', 'warm', 'chunk_cache_size'):
        if k in opts:
            desc += '|%s=%s' % (k, opts[k])
    it = Item(desc, lambda: readers.item_fn(mname, bs, rate, nb, 'in', o2), timeout_s=150 if tier == 'quick' else 400,
              solver_ms=10000 if tier == 'quick' else 60000)
    it.meta = dict(kind='io', method=mname, bs=list(bs), rate=rate, nb=list(nb), opts=opts)
    return it


def replay_candidate(it, c):
    meta = it.meta
    if meta.get('kind') == 'header':
        return replay(dict(kind='io_header', bs=meta['bs'], rate=meta['rate'], stored=meta['stored'], version=meta['version'],
                           pre=meta['pre'], model=c['model'], handlers=['replay.io']))
    if meta.get('kind') != 'io':
        return dict(reproduced=False, detail='no replayer for %s items' % meta.get('kind'))
    req = dict(kind='io', method=meta['method'], bs=meta['bs'], rate=meta['rate'], model=c['model'], obligation=c['msg'],
               version=meta['opts'].get('version'), preload=bool(meta['opts'].get('preload')),
               warm=bool(meta['opts'].get('warm')), chunk_cache_size=meta['opts'].get('chunk_cache_size'),
               handlers=['replay.io'])
    return replay(req)


def main(prop, tier, only=None):
    t0 = time.time()
    items = items_for(tier)
    if only:
        items = [i for i in items if only in i.desc]
    results = run_items(items)
    bounds = dict(blocks_per_axis='2 (quick) / up to 3 (thorough)', layouts=len(set((tuple(i.meta['bs']), i.meta['rate']) for i in items if 'bs' in i.meta)),
                  arguments='unbounded integers (assumed in range)', io_log='first 64 reads per call checked against the block model, first 40 pairwise for disjointness',
                  backends=['file', 'blob'], preload=[False, True])
    return finish(prop, tier, t0, results, items, ASSUMPTIONS, bounds, replay_fn=replay_candidate)


if __name__ == '__main__':
    sys.exit(main('C07', sys.argv[1] if len(sys.argv) > 1 else 'quick', sys.argv[2] if len(sys.argv) > 2 else None))
