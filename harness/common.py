"""Shared harness plumbing: path setup, repo import + shadowing, symbolic conforming SGZ files."""
import os
import sys
import io
import warnings

HERE = os.path.dirname(os.path.abspath(__file__))
ROOT = os.path.dirname(HERE)
if ROOT not in sys.path:
    sys.path.insert(0, ROOT)
REPO = os.environ.get('VERIF_REPO', '/repo')      # the tree under analysis (default: /repo itself)
if REPO not in sys.path:
    sys.path.insert(1, REPO)
DEPS = os.path.join(ROOT, '.deps')
if DEPS not in sys.path:
    sys.path.append(DEPS)      # after /venv's site-packages: only adds what /venv lacks (z3, jsonschema)

warnings.filterwarnings('ignore')

import z3  # noqa: E402
from symx.core import Engine, SymInt, is_sym, mk, b_and, b_or, Unsupported, eng  # noqa: E402
from shims import env as shenv  # noqa: E402
from shims.lazybytes import LazyBytes, ConstSrc, FileSrc, FieldSrc, ShimStruct  # noqa: E402
from shims.lazyarr import LazyArr  # noqa: E402
from models import spec  # noqa: E402

_MODS = None


def mods():
    """Repo modules with shims installed (once per process)."""
    global _MODS
    if _MODS is None:
        _MODS = shenv.repo_modules()
        shenv.install(_MODS)
    return _MODS


# layouts ------------------------------------------------------------------------------------------
def valid_layouts_3d():
    """All (blockshape, rate) with power-of-two dims >= 4, rate in 1/4..32, product*rate == 32768 bits."""
    out = []
    for rate in (0.25, 0.5, 1, 2, 4, 8, 16, 32):
        vox = int(32768 / rate)
        p = 4
        while p <= vox:
            q = 4
            while p * q <= vox:
                r = vox // (p * q)
                if p * q * r == vox and r >= 4 and (r & (r - 1)) == 0:
                    out.append(((p, q, r), rate))
                q *= 2
            p *= 2
    return out


def valid_layouts_2d():
    out = []
    for rate in (1, 2, 4, 8, 16, 32):     # 2D cells of 16 values need >= 9 bits: rate >= 1 (zfp contract)
        vox = int(32768 / rate)
        q = 4
        while q <= vox:
            r = vox // q
            if q * r == vox and r >= 4 and (r & (r - 1)) == 0:
                out.append(((1, q, r), rate))
            q *= 2
    return out


QUICK_3D = [((4, 4, 2048), 1), ((4, 4, 1024), 2), ((4, 4, 512), 4), ((4, 4, 256), 8), ((4, 4, 128), 16),
            ((4, 4, 64), 32), ((4, 4, 4096), 0.5), ((4, 4, 8192), 0.25),
            ((64, 64, 4), 2), ((8, 8, 64), 8), ((16, 16, 16), 8), ((4, 8, 128), 8), ((4, 16, 128), 4),
            ((32, 32, 4), 8), ((8, 4, 128), 8), ((128, 128, 4), 0.5)]
QUICK_2D = [((1, 16, 256), 8), ((1, 4, 1024), 8), ((1, 64, 64), 8), ((1, 16, 2048), 1), ((1, 256, 4), 32)]


def thorough_layouts_3d():
    """~45 layouts: every bit rate x {4x4xN, 4x8xN, 8x4xN, 8x8xN, 16x16xN, 32x32xN, NxNx4} where valid."""
    out = []
    allv = valid_layouts_3d()
    for rate in (0.25, 0.5, 1, 2, 4, 8, 16, 32):
        for a, b in ((4, 4), (4, 8), (8, 4), (8, 8), (16, 16), (32, 32)):
            c = [l for l in allv if l[1] == rate and l[0][0] == a and l[0][1] == b]
            if c:
                out.append(c[0])
        c = [l for l in allv if l[1] == rate and l[0][2] == 4 and l[0][0] == l[0][1]]
        if c:
            out.append(c[0])
    seen, res = set(), []
    for l in out + QUICK_3D:
        if (l[0], l[1]) not in seen:
            seen.add((l[0], l[1]))
            res.append(l)
    return res


def thorough_layouts_2d():
    out = []
    allv = valid_layouts_2d()
    for rate in (1, 2, 4, 8, 16, 32):
        for b in (4, 16, 64, 256):
            c = [l for l in allv if l[1] == rate and l[0][1] == b]
            if c:
                out.append(c[0])
    return out


THOROUGH_SCALE = 2.5      # per-item time budget of the thorough tier relative to the quick tier


# symbolic conforming SGZ file ----------------------------------------------------------------------
class SgzTruth:
    """Ground truth of a symbolic SGZ file that conforms to docs/file-specification.md."""
    pass


def pack_field(fmt, v):
    return ShimStruct.pack(fmt, v)


def build_header(fields, table_rows, segy_header=None):
    """8192-byte header LazyBytes from a dict of field values (ints or SymInts), per the spec table."""
    h = LazyBytes.zeros(spec.HEADER_BYTES, mutable=True)
    for off, fmt, name in spec.HEADER_FIELDS:
        if name in fields:
            h[off:off + 4] = pack_field(fmt, fields[name])
    h[980:2048] = spec.table_bytes(table_rows)
    if segy_header is not None:
        h[4096:4096 + 3600] = segy_header
    if 'hash' in fields:
        h[960:980] = fields['hash']
    return h


def sym_sgz_3d(E, bs, rate, nb, stored=(), version='sym', axes='sym', tracecount=None, il_step=1, xl_step=1,
               interval_us=4000, z0=0, dims=None, fid='sgz'):
    """A symbolic regular 3D SGZ file: dims symbolic with nb[k] blocks along axis k."""
    T = SgzTruth()
    T.bs, T.rate, T.nb = bs, rate, nb
    if dims is None:
        n_il = E.fresh('n_il', max(2, (nb[0] - 1) * bs[0] + 1), nb[0] * bs[0])
        n_xl = E.fresh('n_xl', max(2, (nb[1] - 1) * bs[1] + 1), nb[1] * bs[1])
        n_s = E.fresh('n_s', max(2, (nb[2] - 1) * bs[2] + 1), nb[2] * bs[2])
    else:
        n_il, n_xl, n_s = dims
    T.dims = (n_il, n_xl, n_s)
    T.pad = tuple(nb[k] * bs[k] for k in range(3))
    if version == 'sym':
        T.version = E.fresh('version', 0, 2 ** 23 - 1)
    else:
        T.version = version
    if axes == 'sym':
        T.il0 = E.fresh('il0', -2 ** 31, 2 ** 31 - 1)
        T.xl0 = E.fresh('xl0', -2 ** 31, 2 ** 31 - 1)
    else:
        T.il0, T.xl0 = axes
    T.il_step, T.xl_step = il_step, xl_step
    T.interval_us, T.z0 = interval_us, z0
    T.data_blocks = (T.pad[0] * T.pad[1] * T.pad[2] * rate) / 8 / 4096
    assert T.data_blocks == int(T.data_blocks)
    T.data_blocks = int(T.data_blocks)
    T.stored = list(stored)
    T.n_traces = n_il * n_xl
    T.entry_len = 4 * T.n_traces
    T.tracecount = T.n_traces if tracecount is None else tracecount
    T.fid = fid
    rows = spec.header_table_rows(T.stored)
    fields = dict(n_header_blocks=2, n_samples=n_s, n_xlines=n_xl, n_ilines=n_il, z0=z0, xl0=T.xl0, il0=T.il0,
                  interval=interval_us, xl_step=xl_step, il_step=il_step, rate_code=spec.rate_code(rate),
                  bs0=bs[0], bs1=bs[1], bs2=bs[2], data_blocks=T.data_blocks, entry_len=T.entry_len,
                  n_arrays=len(T.stored), tracecount=T.tracecount, version=T.version, source=0, detection=0)
    T.fields = fields
    T.header = build_header(fields, rows)
    data_len = T.data_blocks * 4096
    stride = None
    T.data_len = data_len
    return T


def footer_len(T):
    """Total footer length for truth T (version-dependent stride)."""
    if not T.stored:
        return 0
    if is_sym(T.version):
        if T.version > spec.V_0_2_1:
            stride = spec.pad_to(T.entry_len, 512)
        else:
            stride = T.entry_len
    else:
        stride = spec.footer_stride(T.version, T.entry_len)
    T.stride = stride
    return stride * len(T.stored)


def make_store(T, name='in.sgz'):
    """FileStore with header bytes + abstract data/footer bytes ('file', fid, off)."""
    total = spec.HEADER_BYTES + T.data_len + footer_len(T)
    content = LazyBytes(total, [(0, total, FileSrc(T.fid), 0), (0, spec.HEADER_BYTES, T.header.snapshot(), 0)], True)
    T.total = total
    # concrete / symbolic content for some footer arrays (irregular files: the inline-number array defines the mask)
    for f, arr in getattr(T, 'footer_arrays', {}).items():
        k = sorted(T.stored).index(f)
        b = arr.astype('i4').tobytes()
        content.layers.append((spec.HEADER_BYTES + T.data_len + k * T.stride, b.length, b, 0))
    st = shenv.FileStore(content, name)
    return st


def expect_voxel_3d(E, T, prov, i, x, z, msg, info=None):
    """Obligation: prov is the decode of the spec cell of voxel (i,x,z) of file T, at (i%4, x%4, z%4)."""
    if not (isinstance(prov, tuple) and prov and prov[0] == 'dec'):
        return E.check(False, msg + ": element is not a decoded voxel (%s)" % (prov[0] if isinstance(prov, tuple) and prov else type(prov).__name__), info)
    leaf, pos = prov[1], prov[2]
    if leaf[0] != 'file' or leaf[1] != T.fid:
        return E.check(False, msg + ": cell bytes are not contiguous data-section bytes (%s)" % leaf[0], info)
    off = spec.cell_offset_3d(T.pad, T.bs, T.rate, i, x, z)
    cond = b_and(leaf[2] == off, pos[0] == i % 4, pos[1] == x % 4, pos[2] == z % 4)
    return E.check(cond, msg, info)


class Quiet:
    def __enter__(self):
        self._o = sys.stdout
        sys.stdout = io.StringIO()

    def __exit__(self, *a):
        sys.stdout = self._o
        return False


def sym_sgz_2d(E, bs, rate, nb, stored=(), version='sym', interval_us=4000, z0=0, dims=None, fid='sgz'):
    """A symbolic 2D SGZ file: ntr traces x ns samples with nb = (trace groups, z blocks)."""
    T = SgzTruth()
    T.bs, T.rate, T.nb = bs, rate, nb
    if dims is None:
        ntr = E.fresh('n_tr', max(2, (nb[0] - 1) * bs[1] + 1), nb[0] * bs[1])
        ns = E.fresh('n_s', max(2, (nb[1] - 1) * bs[2] + 1), nb[1] * bs[2])
    else:
        ntr, ns = dims
    T.dims = (ntr, ns)
    T.pad = (nb[0] * bs[1], nb[1] * bs[2])
    T.version = E.fresh('version', spec.V_0_2_1 + 1, 2 ** 23 - 1) if version == 'sym' else version
    T.interval_us, T.z0 = interval_us, z0
    db = (T.pad[0] * T.pad[1] * rate) / 8 / 4096
    assert db == int(db)
    T.data_blocks = int(db)
    T.stored = list(stored)
    T.n_traces = ntr
    T.entry_len = 4 * ntr
    T.tracecount = ntr
    T.fid = fid
    rows = spec.header_table_rows(T.stored)
    fields = dict(n_header_blocks=2, n_samples=ns, z0=z0, interval=interval_us, rate_code=spec.rate_code(rate),
                  bs0=bs[0], bs1=bs[1], bs2=bs[2], data_blocks=T.data_blocks, entry_len=T.entry_len,
                  n_arrays=len(T.stored), tracecount=T.tracecount, version=T.version, source=0, detection=0)
    T.fields = fields
    T.header = build_header(fields, rows)
    T.data_len = T.data_blocks * 4096
    return T


def expect_voxel_2d(E, T, prov, t, z, msg, info=None):
    if not (isinstance(prov, tuple) and prov and prov[0] == 'dec'):
        return E.check(False, msg + ": element is not a decoded sample (%s)" % (prov[0] if isinstance(prov, tuple) and prov else type(prov).__name__), info)
    leaf, pos = prov[1], prov[2]
    if leaf[0] != 'file' or leaf[1] != T.fid:
        return E.check(False, msg + ": cell bytes are not contiguous data-section bytes (%s)" % leaf[0], info)
    off = spec.cell_offset_2d(T.pad, T.bs, T.rate, t, z)
    cond = b_and(leaf[2] == off, pos[0] == t % 4, pos[1] == z % 4)
    return E.check(cond, msg, info)
