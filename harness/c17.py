"""C17 I/O failures are reported, never turned into samples / C18 partial files never read back as data.

The reader harness (harness/readers.py) runs every read method of the real reader on a symbolic conforming file whose
range reads FAIL at a symbolic position k of the read sequence (C17: exception / short read of symbolic length / empty
read; optionally a second fault), or whose file is CUT at a symbolic byte length (C18).  Obligation on every path: the
call raises, or every returned element has exactly the fault-free provenance (the C02 oracle).
Blob backend: pooled range reads are additionally executed in reverse submission order (order independence).
"""
import sys
import time
from .common import *
from . import readers
from .runner import Item, run_items, finish
from .replayer import replay

ASSUMPTIONS_17 = [
    "file: any SGZ file conforming to docs/file-specification.md (symbolic dimensions within the block bound, layouts enumerated)",
    "fault model: the k-th range read issued after open (k symbolic, unbounded) raises OSError, returns a symbolic shorter prefix (>= 1 byte missing) or returns nothing; optionally a second fault at a later symbolic position",
    "file/blob stubs: read(n) / download_blob(offset, length).readall() return what the fault plan says, otherwise the exact range",
    "zfpy contract: a buffer shorter than the cells it must hold decodes to garbage without raising (validated against real zfpy: no bounds check), an empty buffer raises",
    "ThreadPoolExecutor stub: exceptions raised by a task are stored in its future and surface only through result(); blob items also run queued tasks in reverse order",
    "numpy stub = basic indexing / bytearray slice-assignment semantics including resize when lengths differ",
]
ASSUMPTIONS_18 = [
    "file: a conforming SGZ file cut at an arbitrary symbolic byte length (0 <= cut < complete length); reads beyond the cut come back short or empty",
    "write sequence of the converters is header, compressed blocks in order, footer arrays, then in-place patches (count/table/hash) - checked separately by the writer-side items",
] + ASSUMPTIONS_17[3:]


def items_for(prop, tier):
    items = []
    v025 = spec.encode_version(0, 2, 5, True)
    quick = tier == 'quick'
    lay3 = [((4, 4, 256), 8), ((64, 64, 4), 2), ((8, 8, 64), 8), ((4, 8, 128), 8)] if quick else \
        [((4, 4, 256), 8), ((4, 4, 1024), 2), ((4, 4, 8192), 0.25), ((64, 64, 4), 2), ((128, 128, 4), 0.5), ((8, 8, 64), 8),
         ((16, 16, 16), 8), ((4, 8, 128), 8), ((32, 32, 4), 8)]
    lay2 = [((1, 16, 256), 8), ((1, 4, 1024), 8)] if quick else [((1, 16, 256), 8), ((1, 4, 1024), 8), ((1, 64, 64), 8), ((1, 256, 4), 32)]
    vol = ['read_inline', 'read_crossline', 'read_zslice', 'read_subvolume']
    if prop == 'C17':
        variants = [dict(fault=k) for k in ('exc', 'short', 'empty')]
        variants += [dict(fault=k, backend='blob', executor_order='reverse') for k in (('exc', 'short') if quick else ('exc', 'short', 'empty'))]
        if not quick:
            variants += [dict(fault='exc', fault2='short'), dict(fault='short', fault2='short'), dict(fault='empty', fault2='exc', backend='blob')]
            variants += [dict(fault='short', fault_in_open=True), dict(fault='exc', preload=True, fault_in_open=True)]
        else:
            variants += [dict(fault='short', fault_in_open=True)]
    else:
        variants = [dict(truncate=True), dict(truncate=True, preload=True)] if not quick else [dict(truncate=True)]
    for (bs, rate) in lay3:
        nb = (2, 2, 2) if bs[0] == 4 and bs[1] == 4 else ((2, 2, 1) if bs[2] == 4 else (2, 1, 2))
        for v in variants:
            for mname in vol:
                if quick and v.get('backend') == 'blob' and mname == 'read_subvolume' and bs != (4, 4, 256):
                    continue
                items.append(mk_item(prop, mname, bs, rate, nb, tier, v))
        if bs[0] <= 8 and bs[1] <= 8:
            for v in variants[:3] if quick else variants:
                for mname in (['get_trace_window'] if quick else ['get_trace', 'get_trace_window']):
                    items.append(mk_item(prop, mname, bs, rate, (2, 2, 2), tier, dict(v, dimcap=1)))
    for v in (variants[:3] if quick else variants):
        for mname in (['read_correlated_diagonal_crop_win'] if quick else ['read_correlated_diagonal', 'read_anticorrelated_diagonal',
                                                                          'read_correlated_diagonal_crop_win', 'read_anticorrelated_diagonal_crop_win']):
            items.append(mk_item(prop, mname, (4, 4, 256), 8, (2, 2, 1), tier, dict(v, dimcap=1)))
    for (bs, rate) in lay2:
        for v in variants:
            for mname in ['read_subplane', 'get_trace_2d']:
                items.append(mk_item(prop, mname, bs, rate, (2, 2), tier, v))
    if prop == 'C18' and quick:
        # cut files opened with preload=True (the whole data section is read at open time): thorough runs this for every method
        for mname in ('read_inline', 'read_zslice'):
            items.append(mk_item(prop, mname, (4, 4, 256), 8, (2, 2, 2), tier, dict(truncate=True, preload=True)))
    # a faulted call followed by a fault-free call on the same reader (no state may survive the failure)
    if prop == 'C17':
        for (bs, rate, nb) in [((4, 4, 256), 8, (2, 2, 2)), ((64, 64, 4), 2, (2, 2, 1))] + ([] if quick else [((8, 8, 64), 8, (2, 1, 2))]):
            for kind in ('exc', 'short'):
                for backend in ('file', 'blob'):
                    if quick and backend == 'blob' and kind == 'short':
                        continue
                    for mname in ['read_inline', 'read_crossline', 'read_zslice'] + ([] if quick else ['read_subvolume']):
                        v = dict(fault=kind, faulted_first_call=True)
                        if backend == 'blob':
                            v.update(backend='blob')
                        items.append(mk_item(prop, mname, bs, rate, nb, tier, v))
        items.append(mk_item(prop, 'gen_trace_header', (4, 4, 256), 8, (2, 2, 1), tier, dict(fault='short', faulted_first_call=True, stored=(73, 189, 193), version=v025)))
    # header accessors: 4-byte footer reads and whole-array reads
    for v in variants:
        if v.get('fault_in_open'):
            continue
        for ver in ([v025] if quick else [v025, spec.encode_version(0, 1, 9, True)]):
            for mname in ['gen_trace_header', 'gen_trace_header_all', 'get_tracefield_values_1']:
                items.append(mk_item(prop, mname, (4, 4, 256), 8, (2, 2, 1), tier, dict(v, stored=(73, 189, 193), version=ver)))
        for mname in ['gen_trace_header_2d', 'get_tracefield_values_0_2d']:
            items.append(mk_item(prop, mname, (1, 16, 256), 8, (2, 2), tier, dict(v, stored=(1, 115, 189))))
    return items


def mk_item(prop, mname, bs, rate, nb, tier, opts):
    opts = dict(opts)
    opts.setdefault('version', spec.encode_version(0, 2, 5, True))
    opts.setdefault('axes', (1, 1))
    desc = '%s|bs=%s|rate=%s|nb=%s' % (mname, 'x'.join(map(str, bs)), rate, 'x'.join(map(str, nb)))
    if 'stored' in opts:
        desc += '|stored=%s|version=%s' % ('+'.join(map(str, opts['stored'])), opts['version'])
    for k in ('fault', 'fault2', 'backend', 'executor_order', 'fault_in_open', 'preload', 'truncate', 'faulted_first_call'):
        if k in opts:
            desc += '|%s=%s' % (k, opts[k])
    it = Item(desc, lambda: readers.item_fn(mname, bs, rate, nb, 'in', opts), timeout_s=150 if tier == 'quick' else 400,
              solver_ms=10000 if tier == 'quick' else 60000)
    it.meta = dict(method=mname, bs=list(bs), rate=rate, nb=list(nb), opts=opts, prop=prop)
    return it


def replay_candidate(it, c):
    meta = it.meta
    if meta.get('prop') == 'C18' and 'kind' in meta:
        from . import writers
        return writers.replay_candidate(it, c)
    o = meta['opts']
    req = dict(kind='fault', method=meta['method'], bs=meta['bs'], rate=meta['rate'], model=c['model'], version=o.get('version'),
               fault=o.get('fault'), fault2=o.get('fault2'), fault_in_open=bool(o.get('fault_in_open')), preload=bool(o.get('preload')),
               truncate=bool(o.get('truncate')), faulted_first_call=bool(o.get('faulted_first_call')), stored=list(o.get('stored', ())), backend=o.get('backend', 'file'), handlers=['replay.faults'])
    return replay(req)


def main(prop, tier, only=None):
    t0 = time.time()
    items = items_for(prop, tier)
    if prop == 'C18':
        from . import writers
        items += writers.items_for('C18', tier)
    if only:
        items = [i for i in items if only in i.desc]
    results = run_items(items)
    bounds = dict(blocks_per_axis=2, layouts=len(set((tuple(i.meta['bs']), i.meta['rate']) for i in items)),
                  fault_position='symbolic, unbounded' if prop == 'C17' else None,
                  cut='symbolic byte length over the whole file' if prop == 'C18' else None,
                  faults_per_call='1 (quick) / up to 2 (thorough)' if prop == 'C17' else None,
                  arguments='unbounded integers (assumed in range)')
    bounds = {k: v for k, v in bounds.items() if v is not None}
    return finish(prop, tier, t0, results, items, ASSUMPTIONS_17 if prop == 'C17' else ASSUMPTIONS_18, bounds,
                  replay_fn=replay_candidate, level='model_checking',
                  extra_cov=dict(must_reach_suffix=[':raised-after-fault'] if not only else []))


if __name__ == '__main__':
    sys.exit(main(sys.argv[1], sys.argv[2] if len(sys.argv) > 2 else 'quick', sys.argv[3] if len(sys.argv) > 3 else None))
