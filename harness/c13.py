"""C13 segyio emulation: the real accessor classes (accessors.py, segyio_emulator.py) evaluated on documented
expressions with symbolic subscripts, compared with a model of segyio's own semantics (segyio/line.py: sanitize_slice +
range + membership filter; Python sequence semantics for trace / header / depth_slice).

The emulator is built by the real SegyioEmulator.__init__ over a symbolic conforming SGZ file with concrete small axes;
the sample-reading methods of each accessor object are replaced by token-returning ones AFTER the real range checks
(read_inline -> ('il', index) ...), so what is compared is the structure: which lines / ordinals, in which order, how
many, and whether out-of-range expressions are rejected.  That the tokens' samples equal the decoded volume is C02.
"""
import sys
import time
from .common import *
from . import readers
from .runner import Item, run_items, finish
from .replayer import replay
from symx.core import implied, b_not, SymBool, Infeasible, fx
from shims import lazyarr

ASSUMPTIONS = [
    "segyio model (validated against real segyio in every replay): line[n] -> the line with number n or KeyError; line[a:b:c] -> sanitize_slice (defaults min/max+1 or max/min-1 by the sign of the step), range(*slice.indices(max+1)), filtered to existing numbers, in range order; trace / header / depth_slice: Python sequence semantics",
    "axes: concrete small axes (ascending / descending, unit and non-unit increments, positive line numbers); scalar subscripts unbounded symbolic integers; slice bounds symbolic over existing line numbers (ordinal slices: -n-2..n+2), steps multiples of the increment in axis order",
    "samples: token-returning reads after the real range checks; sample equality with the decoded volume is C02",
]

AXES = [  # (il0, il_step, n_il, xl0, xl_step, n_xl)
    (1, 1, 5, 20, 1, 4),
    (10, 2, 4, 20, 3, 3),
    (5, -1, 5, 8, -2, 4),
    (22, -3, 4, 1, 1, 3),
]


def segyio_line_slice(keys, start, stop, step):
    """segyio/line.py ranges(): which line numbers, in which order."""
    if not all((start, stop, step)):
        increasing = step is None or step > 0
        if start is None:
            start = min(keys) if increasing else max(keys)
        if stop is None:
            stop = max(keys) + 1 if increasing else min(keys) - 1
    r = range(*slice(start, stop, step).indices(max(keys) + 1))
    ks = set(keys)
    return [k for k in r if k in ks]


def build_emulator(E, mm, ax, bs=(4, 4, 256), rate=8):
    il0, ils, n_il, xl0, xls, n_xl = ax
    dims = (n_il, n_xl, 6)
    nb = tuple((n + b - 1) // b for n, b in zip(dims, bs))
    T = sym_sgz_3d(E, bs, rate, nb, version=spec.encode_version(0, 2, 5, True), axes=(il0, xl0), dims=dims, stored=(73, 189, 193),
                   il_step=ils, xl_step=xls)
    st = make_store(T)
    Emu = mm['segyio_emulator'].SegyioEmulator
    with Quiet():
        emu = Emu(shenv.ShimFile(st))
    # token-returning sample reads, after the real argument checks
    emu.iline.read_inline = lambda k: ('il', k)
    emu.xline.read_crossline = lambda k: ('xl', k)
    for acc, name in ((emu.depth_slice, 'z'), (emu.trace, 'tr'), (emu.header, 'hd')):
        orig = acc.values_function

        def tok(i, orig=orig, name=name):
            with Quiet():
                orig(i)         # the real method: raises for ordinals outside the file
            return (name, i)
        acc.values_function = tok
    return emu, T


def line_keys(ax, which):
    il0, ils, n_il, xl0, xls, n_xl = ax
    return [il0 + k * ils for k in range(n_il)] if which == 'iline' else [xl0 + k * xls for k in range(n_xl)]


def expect_tokens(E, got, want, label):
    if not isinstance(got, list):
        return E.check(False, label + ': result is not a list (%s)' % type(got).__name__)
    if not E.check(len(got) == len(want), label + ': number of items (%d, segyio gives %d)' % (len(got), len(want))):
        return False
    ok = True
    for g, w in zip(got, want):
        ok = E.check(isinstance(g, tuple) and g[0] == w[0] and implied(g[1] == w[1]), label + ': items and their order are segyio\'s') and ok
    return ok


def item_line_scalar(ax, which):
    mm = mods()

    def fn():
        E = eng()
        shenv.reset_ctx()
        lazyarr.ALWAYS_LAZY[0] = True
        emu, T = build_emulator(E, mm, ax)
        acc = getattr(emu, which)
        keys = line_keys(ax, which)
        n = E.fresh('line_no')
        label = '%s[n]' % which
        present = b_or(*[n == k for k in keys])
        try:
            with Quiet():
                got = acc[n]
        except (IndexError, KeyError):
            E.reached(label + ':raised')
            E.check(b_not(present), label + ': an existing line number was rejected')
            return
        E.reached(label + ':returned')
        if not E.check(present, label + ': a line number not in the file was accepted'):
            return
        idx = None
        for j, k in enumerate(keys):
            if implied(n == k):
                idx = j
        E.check(isinstance(got, tuple) and got[0] == ('il' if which == 'iline' else 'xl') and idx is not None and implied(got[1] == idx),
                label + ': the line with that number')
        E.check(len(acc) == len(keys), 'len(%s)' % which)
    return fn


def item_line_slice(ax, which, pres):
    """pres = (start present?, stop present?, step present?)"""
    mm = mods()

    def fn():
        E = eng()
        shenv.reset_ctx()
        lazyarr.ALWAYS_LAZY[0] = True
        emu, T = build_emulator(E, mm, ax)
        acc = getattr(emu, which)
        keys = line_keys(ax, which)
        inc = keys[1] - keys[0]
        vals = []
        for name, p in zip(('start', 'stop'), pres[:2]):
            if p:
                j = int(E.fresh('%s_idx' % name, 0, len(keys) - 1))
                vals.append(keys[j])
            else:
                vals.append(None)
        if pres[2]:
            k = int(E.fresh('step_mult', 1, 3))
            vals.append(k * inc)
        else:
            vals.append(None)
        start, stop, step = vals
        want = segyio_line_slice(keys, start, stop, step)
        label = '%s[%s:%s:%s]' % (which, 'a' if pres[0] else '', 'b' if pres[1] else '', 'c' if pres[2] else '')
        tag = 'il' if which == 'iline' else 'xl'
        try:
            with Quiet():
                got = acc[slice(start, stop, step)]
        except Exception as e:
            E.reached(label + ':raised')
            E.check(False, label + ': raised %s where segyio returns %d lines (%s:%s:%s on axis %s)' % (type(e).__name__, len(want), start, stop, step, keys))
            return
        E.reached(label + ':returned')
        expect_tokens(E, got, [(tag, keys.index(k)) for k in want], label + ' (%s:%s:%s on axis %s)' % (start, stop, step, keys))
        if pres == (False, False, False):
            with Quiet():
                it = list(iter(acc))
            expect_tokens(E, it, [(tag, keys.index(k)) for k in want], 'iteration over %s' % which)
    return fn


def item_ordinal(ax, which):
    """depth_slice / trace / header: scalar ordinal (unbounded) and slices (bounded bounds, steps -3..3)."""
    mm = mods()

    def fn():
        E = eng()
        shenv.reset_ctx()
        lazyarr.ALWAYS_LAZY[0] = True
        emu, T = build_emulator(E, mm, ax)
        acc = getattr(emu, which)
        n = {'depth_slice': 6, 'trace': ax[2] * ax[5], 'header': ax[2] * ax[5]}[which]
        tag = {'depth_slice': 'z', 'trace': 'tr', 'header': 'hd'}[which]
        E.check(len(acc) == n, 'len(%s)' % which)
        mode = int(E.fresh('mode', 0, 1))
        if mode == 0:
            k = E.fresh('ordinal')
            label = '%s[k]' % which
            inr = b_and(k >= -n, k < n)
            try:
                got = acc[k]
            except IndexError:
                E.reached(label + ':raised')
                E.check(b_not(inr), label + ': an ordinal Python indexing accepts was rejected')
                return
            E.reached(label + ':returned')
            if E.check(inr, label + ': an ordinal outside the sequence was accepted'):
                want = k + n if implied(k < 0) else k
                E.check(isinstance(got, tuple) and got[0] == tag and implied(got[1] == want), label + ': the item Python indexing denotes')
            return
        a = E.fresh('a', -n - 2, n + 2)
        b = E.fresh('b', -n - 2, n + 2)
        c = E.fresh('c', -3, 3)
        E.assume(c != 0)
        pa, pb, pc = (int(E.fresh('has_' + x, 0, 1)) for x in 'abc')
        s = slice(int(a) if pa else None, int(b) if pb else None, int(c) if pc else None)
        want = list(range(n))[s]
        label = '%s[a:b:c]' % which
        try:
            got = acc[s]
        except Exception as e:
            E.reached(label + ':raised')
            E.check(False, label + ': slice %s raised %s' % (s, type(e).__name__))
            return
        E.reached(label + ':returned')
        expect_tokens(E, got, [(tag, j) for j in want], label + ' %s' % (s,))
    return fn


def item_subvolume(ax):
    mm = mods()

    def fn():
        E = eng()
        shenv.reset_ctx()
        lazyarr.ALWAYS_LAZY[0] = True
        emu, T = build_emulator(E, mm, ax)
        sv = emu.subvolume
        from shims.lazyarr import LazyArr

        def tokvol(min_il, max_il, min_xl, max_xl, min_z, max_z, **kw):
            return LazyArr((max_il - min_il, max_xl - min_xl, max_z - min_z), lambda idx: ('vox', min_il + idx[0], min_xl + idx[1], min_z + idx[2]), 'prov', 'f4')
        sv.read_subvolume = tokvol
        axes = [line_keys(ax, 'iline'), line_keys(ax, 'xline'), [0, 4, 8, 12, 16, 20]]
        subs, ranges = [], []
        for d, keys in enumerate(axes):
            inc = keys[1] - keys[0]
            pa, pb, pc = (int(E.fresh('has%d_%s' % (d, x), 0, 1)) for x in 'abc')
            ja = int(E.fresh('a%d' % d, 0, len(keys) - 1))
            jb = int(E.fresh('b%d' % d, 0, len(keys)))
            if pa and pb and jb <= ja:
                raise Infeasible()
            if (not pa) and pb and jb == 0:
                raise Infeasible()
            k = int(E.fresh('k%d' % d, 1, 2))
            start = keys[ja] if pa else None
            stop = (keys[jb] if jb < len(keys) else keys[-1] + inc) if pb else None
            step = k * inc if pc else None
            subs.append(slice(start, stop, step))
            ranges.append(range(ja if pa else 0, jb if pb else len(keys), k if pc else 1))
        label = 'subvolume[a:b:c, ...]'
        try:
            with Quiet():
                got = sv[tuple(subs)]
        except Exception as e:
            E.reached(label + ':raised')
            E.check(False, label + ': %s raised %s' % (subs, type(e).__name__))
            return
        E.reached(label + ':returned')
        shape = tuple(len(r) for r in ranges)
        if not E.check(tuple(got.shape) == shape, label + ': shape of %s is that of the stepped coordinate box %s (got %s)' % (subs, shape, tuple(got.shape))):
            return
        q = [E.fresh('q%d' % d, 0) for d in range(3)]
        E.assume(b_and(*[q[d] < shape[d] for d in range(3)]))
        g = got.get(tuple(q))
        want = tuple(ranges[d].start + q[d] * ranges[d].step for d in range(3))
        E.check(g[0] == 'vox' and implied(b_and(*[g[1 + d] == want[d] for d in range(3)])), label + ': element is the voxel numpy slicing of the volume denotes')
    return fn


def items_for(tier):
    items = []
    quick = tier == 'quick'
    axes = AXES if not quick else AXES[:3]
    for ax in axes:
        axd = 'il%s:%s:%s,xl%s:%s:%s' % ax
        for which in ('iline', 'xline'):
            it = Item('scalar|%s|%s' % (which, axd), (lambda ax=ax, which=which: item_line_scalar(ax, which)), timeout_s=120)
            it.meta = dict(kind='line-scalar', ax=list(ax), which=which)
            items.append(it)
            for pres in [(a, b, c) for a in (False, True) for b in (False, True) for c in (False, True)]:
                it = Item('slice|%s|%s|%s' % (which, axd, ''.join('1' if p else '0' for p in pres)),
                          (lambda ax=ax, which=which, pres=pres: item_line_slice(ax, which, pres)), timeout_s=200)
                it.meta = dict(kind='line-slice', ax=list(ax), which=which, pres=list(pres))
                items.append(it)
        for which in ('depth_slice', 'trace', 'header'):
            if quick and ax != axes[0] and which != 'depth_slice':
                continue
            it = Item('ordinal|%s|%s' % (which, axd), (lambda ax=ax, which=which: item_ordinal(ax, which)), timeout_s=250)
            it.meta = dict(kind='ordinal', ax=list(ax), which=which)
            items.append(it)
        it = Item('subvolume|%s' % axd, (lambda ax=ax: item_subvolume(ax)), timeout_s=250)
        it.meta = dict(kind='subvolume', ax=list(ax))
        items.append(it)
    return items


def replay_candidate(it, c):
    return replay(dict(kind='emulator', item=it.meta, model=c['model'], obligation=c['msg'], handlers=['replay.emulator']))


def main(prop, tier, only=None):
    t0 = time.time()
    items = items_for(tier)
    if only:
        items = [i for i in items if only in i.desc]
    results = run_items(items)
    bounds = dict(axes=[list(a) for a in AXES], scalar_subscripts='unbounded integers', slice_bounds='existing line numbers / ordinals in [-n-2, n+2]',
                  steps='1..3 x increment (lines), -3..3 (ordinals)')
    return finish(prop, tier, t0, results, items, ASSUMPTIONS, bounds, replay_fn=replay_candidate)


if __name__ == '__main__':
    sys.exit(main('C13', sys.argv[1] if len(sys.argv) > 1 else 'quick', sys.argv[2] if len(sys.argv) > 2 else None))
