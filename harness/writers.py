"""Writer-side harness: the real converters (NumpyConverter.run / SeismicFileConverter.run, producers, compressor,
writer, make_header*, write_headers, write_hash) run on a symbolic source under provenance stubs; the produced file
(a ShimFile store) is then examined directly (C03, C20) and through the real reader (C01, C04, C05, C08, C09, C11).

Source voxels carry provenance ('src', il, xl, z); compress_numpy records its input array; a decoded voxel therefore
chains   reader element -> ('dec', file bytes -> ('code', compress call, offset)) -> cell of the recorded input ->
('src', ...)   and the C01 oracle is the edge-clamped source voxel for every position of the 4x4x4 cell.
"""
import z3
from .common import *
from symx.core import implied, b_not, SymBool, mkbool, Infeasible, tobool, fx
from shims import lazyarr
from shims.lazyarr import LazyArr, DStr

ASSUMPTIONS = [
    "source cube: arbitrary float32 values, represented by provenance ('src', il, xl, z); dimensions symbolic within the block bound",
    "zfpy contract: compress_numpy(a, rate, write_header=False) on an array whose dims are multiples of 4 = concatenation of independently coded 4^d cells in C order, 4^d*rate bits each; decoding a cell depends only on its bytes",
    "Thread / Queue stubs: real OS threads under a strict baton (deterministic eager data-flow schedule); all interleavings are C16's subject",
    "hashlib stub: SHA-1 uninterpreted and collision free; the sequence of arrays passed to update() is what is compared",
    "pkg_resources stub returns the distribution version string under test",
    "numpy stub: basic indexing, np.pad(..., 'edge'), slice assignment with broadcasting, copy, tobytes, arange, broadcast_to, expand_dims",
]
BOUNDS = dict(writer_blocks_per_axis='2 (quick) / up to 3 (thorough)', writer_routes=['NumPy', 'SEG-Y via segyio stub', 'SEG-Y reduced-I/O', '2D', 'irregular'])


def clamp(q, n):
    """min(q, n-1) as a term (no fork)."""
    if not is_sym(q) and not is_sym(n):
        return min(q, n - 1)
    from symx.core import term
    return mk(z3.If(term(q) > term(n) - 1, term(n) - 1, term(q)))


class Hdr:
    """Arbitrary header values: an uninterpreted function of the grid position / trace ordinal, wrapped into the range
    of the field (SEG-Y trace header fields are 2- or 4-byte two's-complement integers)."""
    def __init__(self, name, arity, bits=32):
        self.fn = z3.Function(name, *([z3.IntSort()] * arity + [z3.IntSort()]))
        self.bits = bits

    def __call__(self, *idx):
        from symx.core import term
        raw = self.fn(*[term(i) for i in idx])
        half = 2 ** (self.bits - 1)
        return mk(((raw + half) % (2 * half)) - half)


def src_cube(dims):
    return LazyArr(tuple(dims), lambda idx: ('src',) + tuple(idx), 'prov', 'f4')


def sym_dims(E, bs, nb, lo2=True):
    out = []
    for k, name in enumerate(('n_il', 'n_xl', 'n_s')):
        out.append(E.fresh(name, max(2, (nb[k] - 1) * bs[k] + 1), nb[k] * bs[k]))
    return tuple(out)


def setup_path(version='0.2.5'):
    mm = mods()
    shenv.reset_ctx()
    lazyarr.ALWAYS_LAZY[0] = True
    fs = shenv.ShimFS()
    shenv.install_writer_shims(mm, fs)
    shenv.ctx().dist_version = version
    return mm, fs


# ------------------------------------------------------------------------------------------------ oracles
def trace_to_source(E, st, prov, msg):
    """prov = ('dec', leaf, pos) from a reader on store st -> (input array of the compress call, cell coords, pos) or None."""
    if not (isinstance(prov, tuple) and prov and prov[0] == 'dec'):
        E.check(False, msg + ': element is not a decoded voxel (%s)' % (prov[0] if isinstance(prov, tuple) and prov else type(prov).__name__))
        return None
    leaf, pos = prov[1], prov[2]
    if leaf[0] != 'code':
        E.check(False, msg + ': the cell bytes in the file are not one compressed cell (%s)' % (leaf[0],))
        return None
    call = shenv.ctx().compress_calls[leaf[1]]
    ub = call['ub']
    if ub is None or not call['aligned']:
        E.check(False, msg + ': compress_numpy was called outside the fixed-rate contract (rate %r, shape %s)' % (call['rate'], call['shape']))
        return None
    off = leaf[2]
    if not E.check(off % ub == 0, msg + ': cell read starts at a cell boundary of the compressed stream'):
        return None
    cell = off // ub
    arr = call['arr']
    cshape = [s // 4 for s in arr.shape]
    coords = []
    for n in reversed(cshape[1:]):
        coords.append(cell % n)
        cell = cell // n
    coords.append(cell)
    coords = tuple(reversed(coords))
    return arr, coords, pos


def norm_source(inp, model=None):
    """Cell input -> ('src', ...) if it is a source sample in any of the representations the routes produce."""
    if not (isinstance(inp, tuple) and inp):
        return None
    if inp[0] == 'src':
        if isinstance(model, WindowedModel) and len(inp) == 4:
            return ('src', inp[1] - model.win[0], inp[2] - model.win[2], inp[3])
        return inp
    if model is not None:
        w = None
        if model.fmt == 5 and inp[0] == 'word':
            w = inp[1]
        elif model.fmt == 1 and inp[0] == 'native' and isinstance(inp[1], tuple) and inp[1] and inp[1][0] == 'word':
            w = inp[1][1]
        if w is not None and w[0] == 'segy-sample' and (w[3] == 0):
            return model.sample_prov(w[1], w[2])
    return None


def expect_source_voxel(E, st, prov, vox, dims, msg, zero_fill=None, model=None):
    """C01 oracle: prov decodes the cell whose 4^d inputs are the edge-clamped source voxels around `vox`."""
    r = trace_to_source(E, st, prov, msg)
    if r is None:
        return False
    arr, coords, pos = r
    nd = len(vox)
    ok = E.check(b_and(*[pos[k] == vox[k] % 4 for k in range(nd)]), msg + ': position inside the cell')
    abc = [E.fresh('c%d' % k, 0, 3) for k in range(nd)]
    inp = arr.get(tuple(4 * coords[k] + abc[k] for k in range(nd)))
    want = tuple(clamp(4 * (vox[k] // 4) + abc[k], dims[k]) for k in range(nd))
    if zero_fill is not None:
        return zero_fill(E, inp, tuple(4 * (vox[k] // 4) + abc[k] for k in range(nd)), msg) and ok
    ninp = norm_source(inp, model)
    if ninp is not None:
        inp = ninp
    if not (isinstance(inp, tuple) and inp and inp[0] == 'src'):
        E.check(False, msg + ': a cell input is not a source sample (%s)' % (inp[0] if isinstance(inp, tuple) and inp else type(inp).__name__))
        return False
    return E.check(b_and(*[inp[1 + k] == want[k] for k in range(nd)]), msg + ': every input of the cell is the edge-extended source sample') and ok


def read_field(st, off, fmt):
    from shims.lazybytes import unpack_leaf
    import struct
    w = struct.calcsize(fmt)
    return unpack_leaf(fmt, st.content.resolve(off, w), w)


def check_container(E, st, exp, label, full=True):
    """C03 oracle: header fields, section lengths and file length of store st vs the spec model.
    exp: dict(n_il, n_xl, n_s, bs, rate, tracecount, stored(list), il0, xl0, il_step, xl_step, z0, interval, version_gt_021, is2d)"""
    c = st.content
    bs, rate = exp['bs'], exp['rate']
    is2d = exp.get('is2d', False)
    if is2d:
        pad = (spec.pad_to(exp['tracecount'], bs[1]), spec.pad_to(exp['n_s'], bs[2]))
        vox = pad[0] * pad[1]
        ntr_grid = exp['tracecount']
    else:
        pad = tuple(spec.pad_to(n, b) for n, b in zip((exp['n_il'], exp['n_xl'], exp['n_s']), bs))
        vox = pad[0] * pad[1] * pad[2]
        ntr_grid = exp['n_il'] * exp['n_xl']
    num, den = (rate).as_integer_ratio() if isinstance(rate, float) else (rate, 1)
    data_bytes = (vox * num) // (8 * den)
    blocks = data_bytes // 4096
    want = dict(n_header_blocks=2, n_samples=exp['n_s'], rate_code=spec.rate_code(rate), bs0=bs[0], bs1=bs[1], bs2=bs[2],
                data_blocks=blocks, entry_len=4 * ntr_grid, n_arrays=len(exp['stored']), tracecount=exp['tracecount'])
    if not is2d:
        want.update(n_xlines=exp['n_xl'], n_ilines=exp['n_il'])
        for k in ('il0', 'xl0', 'il_step', 'xl_step'):
            if k in exp:
                want[k] = exp[k]
    for k in ('z0', 'interval'):
        if k in exp:
            want[k] = exp[k]
    stride = spec.pad_to(4 * ntr_grid, 512)
    if 'inherit_version' in exp:
        # a derived file (crop / re-block) states a version of its own; what matters is that the conventions readers
        # derive from THAT version are the ones the file follows and give the same geometry as the source's did
        ver_out = read_field(st, 72, '<I')
        ver_out = fx(ver_out)
        stride = spec.footer_stride(ver_out, 4 * ntr_grid)
        if not (ver_out > spec.V_0_2_1):
            want.pop('tracecount', None)      # readers of such files take the trace count from the grid, not the field
    total = 8192 + data_bytes + stride * len(exp['stored'])
    if not full:
        return dict(data_bytes=data_bytes, stride=stride, total=total, pad=pad)
    E.reached(label + ':container')
    for off, fmt, name in spec.HEADER_FIELDS:
        if name not in want:
            continue
        try:
            got = read_field(st, off, fmt)
        except Exception as e:
            E.check(False, label + ': header field %s is not a %s value (%s)' % (name, fmt, type(e).__name__))
            continue
        E.check(got == want[name], label + ': header field %s states the true value' % name)
    ver = read_field(st, 72, '<I')
    if 'inherit_version' in exp:
        # the interval field is carried over, so the unit the version implies (ms up to 0.1.6, us after) must be too
        E.check((ver > spec.V_0_1_6) == (exp['inherit_version'] > spec.V_0_1_6),
                label + ': recorded version implies the same sample-interval unit as the source file (sample axis unchanged)')
    else:
        E.check(ver > spec.V_0_2_1, label + ': recorded version selects the conventions the writer used (padded footer, trace-count field, microsecond interval)')
    if 'version_enc' in exp:
        E.check(ver == exp['version_enc'], label + ": recorded version is the writing library's version")
    E.check(data_bytes == blocks * 4096, label + ': data section is a whole number of 4 KiB blocks = padded voxels x bits / 8')
    E.check(c.length == total, label + ': file length = header + data blocks + padded footer arrays')
    # the header-word table names exactly the stored arrays
    import struct
    k = 0
    for i, f in enumerate(spec.TRACE_FIELDS):
        row = [read_field(st, 980 + 12 * i + 4 * j, '<i') for j in range(3)]
        if f in exp['stored']:
            E.check(b_and(row[0] == f, row[1] == 0, row[2] == f), label + ': table row of stored field %d' % f)
        elif f in exp.get('dups', {}):
            E.check(b_and(row[0] == f, row[1] == 0, row[2] == exp['dups'][f]), label + ': table row of duplicate field %d' % f)
        else:
            cv = exp.get('consts', {}).get(f, 0)
            E.check(b_and(row[0] == f, row[1] == cv, row[2] == 0), label + ': table row of constant field %d' % f)
    return dict(data_bytes=data_bytes, stride=stride, total=total, pad=pad)


def check_data_section(E, st, exp, geo, label):
    """Every byte of the data section is compressed-cell code, block b of the spec order holds the cells of block b."""
    p = E.fresh('pbyte', 8192)
    E.assume(p < 8192 + geo['data_bytes'])
    leaf = st.content.resolve(p, 1)
    E.reached(label + ':data-byte')
    E.check(leaf[0] == 'code', label + ': every data-section byte is compressed-cell code (%s)' % leaf[0])


def check_footer(E, st, exp, geo, hdrs, label, grid_index=None):
    """Footer array k (k-th stored field) holds, at element t, the int32 header value of grid trace t."""
    stored = sorted(exp['stored'])
    if not stored:
        return
    is2d = exp.get('is2d', False)
    ntr = exp['tracecount'] if is2d else exp['n_il'] * exp['n_xl']
    t = E.fresh('ptrace', 0)
    E.assume(t < ntr)
    base = 8192 + geo['data_bytes']
    from shims.lazyarr import i32_of_leaf
    for k, f in enumerate(stored):
        leaf = st.content.resolve(base + k * geo['stride'] + 4 * t, 4)
        E.reached(label + ':footer')
        try:
            got = i32_of_leaf(leaf)
        except Exception as e:
            E.check(False, label + ': footer bytes of field %d are not an int32 element (%s)' % (f, type(e).__name__))
            continue
        if isinstance(got, tuple):
            E.check(False, label + ': footer bytes of field %d are not an int32 element (%s)' % (f, leaf[0]))
            continue
        want = hdrs(f, t)
        E.check(got == want, label + ': footer array of field %d holds the header value of every grid trace' % f)
    # padding between arrays is zero
    if implied(geo['stride'] > 4 * ntr):
        q = E.fresh('ppad', 0)
        E.assume(b_and(q >= 4 * ntr, q < geo['stride']))
        leaf = st.content.resolve(base + q, 1)
        from shims.lazybytes import byte_value
        try:
            zero = byte_value(leaf) == 0
        except Exception:
            zero = False
        E.check(zero, label + ': footer padding is zero bytes (%s)' % (leaf[0],))


def check_hash(E, exp_dims, label, is2d=False, model=None):
    """C20 oracle: the concatenation of the arrays passed to update() is the source samples in trace order."""
    hs = shenv.ctx().hash_objects
    E.reached(label + ':hash')
    st = shenv.ctx().last_store
    leaf = st.content.resolve(960, 20)
    obj = None
    if isinstance(leaf[0], tuple) and leaf[0][0] == 'digest' and (leaf[1] == 0):
        obj = [h for h in hs if id(h) == leaf[0][1]]
    if not obj:
        E.check(False, label + ': bytes 960-979 of the file hold a SHA-1 digest (%s)' % (leaf[0],))
        return
    E.check(True, label + ': bytes 960-979 hold the digest of a hash object')
    ups = obj[0].updates
    total = 0
    k = E.fresh('phash', 0)
    n_tr = exp_dims[0] * exp_dims[1] if not is2d else exp_dims[0]
    n_s = exp_dims[-1]
    E.assume(k < n_tr * n_s)
    found = False
    for a in ups:
        if not isinstance(a, LazyArr):
            E.check(False, label + ': update() received %s' % type(a).__name__)
            return
        sz = a.size
        inside = b_and(k >= total, k < total + sz)
        if inside is not False and (inside is True or bool(inside)):
            found = True
            rel = k - total
            idx = []
            for s in reversed(a.shape[1:]):
                idx.append(rel % s)
                rel = rel // s
            idx.append(rel)
            got = a.get(tuple(reversed(idx)))
            got = norm_source(got, model) or got
            tr, z = k // n_s, k % n_s
            want = (tr // exp_dims[1], tr % exp_dims[1], z) if not is2d else (tr, z)
            if not (isinstance(got, tuple) and got and got[0] == 'src'):
                E.check(False, label + ': hashed element is not a source sample (%s)' % (got[0] if isinstance(got, tuple) and got else type(got).__name__))
            else:
                E.check(b_and(*[got[1 + j] == want[j] for j in range(len(want))]), label + ': k-th hashed float is sample k of the source in trace order')
            break
        total = total + sz
    if not found:
        E.check(False, label + ': the hashed stream is shorter than the source (%s of %s floats)' % (total, n_tr * n_s))
        return
    # total length
    tot = 0
    for a in ups:
        tot = tot + a.size
    E.check(tot == n_tr * n_s, label + ': hashed stream has exactly n_traces x n_samples floats')
    E.check(all(a.dtype == 'f4' for a in ups), label + ': hashed arrays are float32')


# ------------------------------------------------------------------------------------------------ NumPy route
def numpy_item(bs, rate, nb, props, opts=None):
    opts = opts or {}

    def fn():
        E = eng()
        mm, fs = setup_path(opts.get('version', '0.2.5'))
        C = mm['conversion']
        dims = sym_dims(E, bs, nb)
        import symx.core as _core0
        from symx import fpworld as _fw0
        _core0.FP_MODE[0] = False      # (globals of the worker process: an earlier float item must not leak into this one)
        _fw0.reset()
        if opts.get('fixed_dims'):
            E.assume(b_and(*[dims[k] == opts['fixed_dims'][k] for k in range(3)]))
            dims = tuple(int(d) for d in dims)
        cube = src_cube(dims)
        kw = {}
        hdr_fields = opts.get('headers', ())
        H = {}
        import segyio
        if hdr_fields:
            th = {}
            for f, dt in hdr_fields:
                H[f] = Hdr('hdr_%d' % f, 2, bits={'i2': 16, 'i4': 32, 'i8': 64, '>i4': 32}[dt])
                th[int(f)] = LazyArr((dims[0], dims[1]), (lambda idx, f=f: H[f](idx[0], idx[1])), 'num', dt)
            kw['trace_headers'] = th
        ax = opts.get('axes')
        il0 = xl0 = 0
        il_step = xl_step = 1
        if ax == 'sym':
            il0, xl0 = E.fresh('il0', -2 ** 31, 2 ** 31 - 1), E.fresh('xl0', -2 ** 31, 2 ** 31 - 1)
            il_step, xl_step = opts.get('il_step', 1), opts.get('xl_step', 1)
            for a0, stp, n in ((il0, il_step, dims[0]), (xl0, xl_step, dims[1])):
                last = a0 + (n - 1) * stp
                E.assume(b_and(last >= -2 ** 31, last <= 2 ** 31 - 1))
            kw['ilines'] = LazyArr((dims[0],), lambda idx: il0 + idx[0] * il_step, 'num', 'i8')
            kw['xlines'] = LazyArr((dims[1],), lambda idx: xl0 + idx[0] * xl_step, 'num', 'i8')
        z0, dz = 0, 4
        if opts.get('samples') == 'sym':
            z0 = E.fresh('z0', -32768, 32767)
            dz = E.fresh('dz_ms', 1, 65)
            kw['samples'] = LazyArr((dims[2],), lambda idx: z0 + idx[0] * dz, 'num', 'i8')
        fp_model = None
        if opts.get('samples') == 'fp':
            # binary64 sample axis handed over by the caller: t0 + k * (interval_us / 1000.0), any interval 1..65535 us (no SEG-Y
            # field in between on this route); decided in the float world like the SEG-Y items
            import symx.core as _core
            from symx import fpworld as _fw
            from symx.symfloat import SymFloat, to_fp
            _core.FP_MODE[0] = True
            _fw.reset()
            _fw.CFG.update(z3_ms=20000, cvc5_s=opts.get('cvc5_s', 300), use_cvc5=True)
            t0 = E.fresh('t0_ms', *opts.get('t0_range', (-2, 2)))
            dtu = E.fresh('dt_us', *opts.get('dt_range', (1, 65535)))
            step = SymFloat(to_fp(dtu)) / 1000.0
            kw['samples'] = LazyArr((dims[2],), lambda idx: step * idx[0] + t0, 'num', 'f8')

            class _M:
                pass
            fp_model = _M()
            fp_model.dt_us_fp, fp_model.t0_ms = dtu, t0
        try:
            with Quiet():
                conv = C.NumpyConverter(cube, **kw)
                if opts.get('runs') == 2:      # the same converter object used for an earlier output (another bit rate)
                    conv.run('first.sgz', bits_per_voxel=4, blockshape=(4, 4, -1))
                conv.run('out.sgz', bits_per_voxel=opts.get('bpv_in', rate), blockshape=opts.get('bs_in', bs))
        except Exception as e:
            if fp_model is None:
                raise
            # (float items: the path may be infeasible in the float world - decided with the full path condition)
            E.check(False, 'numpy: the conversion of a valid source raised %s' % type(e).__name__)
            return
        E.reached('numpy:converted')
        st = fs.stores['out.sgz']
        stored = sorted(set([189, 193] + [f for f, _ in hdr_fields]))

        def hdrs(f, t):
            i, x = t // dims[1], t % dims[1]
            if f in H:
                return lazyarr.wrap32(H[f](i, x))      # what is stored is the int32 of the value given
            if f == 189:
                return il0 + i * il_step
            return xl0 + x * xl_step
        exp = dict(n_il=dims[0], n_xl=dims[1], n_s=dims[2], bs=bs, rate=rate, tracecount=dims[0] * dims[1], stored=stored,
                   il0=il0, xl0=xl0, il_step=il_step, xl_step=xl_step, z0=z0, interval=1000 * dz,
                   version_enc=spec.encode_version(*opts.get('version_tuple', (0, 2, 5, True))) if 'version_tuple' in opts or 'version' not in opts else None)
        if exp['version_enc'] is None:
            del exp['version_enc']
        if 'C03' in props:
            part = opts.get('part', 'container')
            geo = check_container(E, st, exp, 'numpy', full=(part == 'container'))
            if part == 'data':
                check_data_section(E, st, exp, geo, 'numpy')
            if part == 'footer':
                check_footer(E, st, exp, geo, hdrs, 'numpy')
        if 'C20' in props:
            shenv.ctx().last_store = st
            check_hash(E, dims, 'numpy')
        if 'C18' in props:
            check_crash_prefix(E, mm, st, None, dims, 'numpy', opts, H)
        if 'C01' in props or 'C04' in props or 'C05' in props:
            R = mm['read']
            with Quiet():
                r = R.SgzReader(shenv.ShimFile(st))
            if 'C01' in props:
                E.check(b_and(r.n_ilines == dims[0], r.n_xlines == dims[1], r.n_samples == dims[2]), 'numpy: the file states the source shape')
                v = [E.fresh(n, 0) for n in ('i', 'x', 'z')]
                E.assume(b_and(*[v[k] < dims[k] for k in range(3)]))
                with Quiet():      # one-voxel box of the volume (C02 ties every other read path to the same cells)
                    vox = r.read_subvolume(v[0], v[0] + 1, v[1], v[1] + 1, v[2], v[2] + 1)
                E.reached('numpy:probe')
                expect_source_voxel(E, st, vox.get((0, 0, 0)), v, dims, 'numpy: read-back voxel')
            if 'C05' in props and fp_model is not None:
                check_axes_fp(E, mm, st, fp_model, dims, 'numpy')
            elif 'C05' in props:
                check_axes(E, r, dims, il0, il_step, xl0, xl_step, z0, dz, 'numpy')
            if 'C04' in props:
                check_headers_readback(E, r, dims, stored, hdrs, 'numpy')
    return fn


def aget(arr, k):
    """arr[k] for a lazy or a real 1-d array and a possibly symbolic k."""
    if isinstance(arr, LazyArr):
        return arr.get((k,))
    from shims.lazyarr import _pick
    lst = [float(v) if isinstance(v, float) or 'float' in type(v).__name__ else int(v) for v in arr.tolist()]
    return _pick(lst, k)


def check_axes(E, r, dims, il0, il_step, xl0, xl_step, z0, dz_ms, label):
    E.reached(label + ':axes')
    for name, ax, n, a0, stp in (('ilines', r.ilines, dims[0], il0, il_step), ('xlines', r.xlines, dims[1], xl0, xl_step)):
        E.check(ax.shape[0] == n, label + ': %s has the source count' % name)
        k = E.fresh('k_' + name, 0)
        E.assume(b_and(k < n, k < ax.shape[0]))
        E.check(aget(ax, k) == a0 + k * stp, label + ': %s[k] = start + k*step of the source' % name)
    zs = r.zslices
    E.check(zs.shape[0] == dims[2], label + ': sample axis has the source count')
    k = E.fresh('k_z', 0)
    E.assume(b_and(k < dims[2], k < zs.shape[0]))
    E.check(aget(zs, k) == z0 + k * dz_ms, label + ': sample axis value k = t0 + k*interval')
    E.check(r.tracecount == dims[0] * dims[1], label + ': trace count')
    E.check(bool(r.structured) is True, label + ': structured flag')


def check_axes_fp(E, mm, st, model, dims, label):
    """C05, binary64 part: interval field, start time, sample count and sample values for any whole-microsecond interval.
    All four obligations depend on float results and are decided in the QF_BVFP world (symx.fpworld)."""
    from symx.symfloat import SymFloat, to_fp
    R = mm['read']
    n_s = dims[-1]
    E.reached(label + ':axes-fp')
    got_iv = read_field(st, 28, '<i')
    E.check(got_iv == model.dt_us_fp, label + ': stored sample interval equals the source interval in microseconds')
    E.check(read_field(st, 16, '<i') == model.t0_ms, label + ': stored start time equals the source start time')
    with Quiet():
        r = R.SgzReader(shenv.ShimFile(st))
    zs = r.zslices
    E.check(zs.shape[0] == n_s, label + ': sample axis has the source count')
    k = E.fresh('k_z', 0)
    E.assume(b_and(k < n_s, k < zs.shape[0]))
    v = aget(zs, k)
    if isinstance(v, SymFloat):
        # |v - (t0 + k*interval_us/1000)| <= 1e-6 ms, written without a division: T = 1000*t0 + k*interval_us is an exact
        # integer (< 2^53), and |1000*v - T| <= 1e-3 (the product 1000*v is itself rounded: < 1e-8 here)
        T = model.t0_ms * 1000 + k * model.dt_us_fp
        diff = abs(v * 1000.0 - SymFloat(to_fp(T)))
        E.check(diff <= 1e-3, label + ': sample axis value k is t0 + k*interval within float rounding (1e-6 ms)')
    else:
        E.check(False, label + ': sample axis value is not a float (%s)' % type(v).__name__)


def term_(x):
    from symx.core import term
    return term(x)


def check_headers_readback(E, r, dims, stored, hdrs, label):
    import segyio
    t = E.fresh('hdr_trace', 0)
    E.assume(t < dims[0] * dims[1])
    E.reached(label + ':headers')
    with Quiet():
        h = r.gen_trace_header(t)
    for f in spec.TRACE_FIELDS:
        v = h[segyio.tracefield.TraceField(f)]
        if f in stored:
            if isinstance(v, tuple):
                E.check(False, label + ': header field %d of a trace is not an int32 (%s)' % (f, v[0]))
            else:
                E.check(v == hdrs(f, t), label + ': gen_trace_header field %d equals the source header' % f)
        else:
            E.check(v == 0, label + ': unset header field reads 0')


# ------------------------------------------------------------------------------------------------ SEG-Y routes
def array_equal_hook(model):
    def eq(a, b):
        from shims.lazyarr import from_numpy
        import numpy as _np
        E = eng()
        if isinstance(a, _np.ndarray):
            a = from_numpy(a)
        if isinstance(b, _np.ndarray):
            b = from_numpy(b)
        if len(a.shape) != len(b.shape):
            return False
        for x, y in zip(a.shape, b.shape):
            if not (x == y):
                return False
        # all elements equal <=> no index at which the (normalised) provenances differ
        q = [E.fresh('eq%d' % k, 0) for k in range(len(a.shape))]
        for k, n in enumerate(a.shape):
            E.assume(q[k] < n)
        pa, pb = norm_source(a.get(tuple(q)), model), norm_source(b.get(tuple(q)), model)
        if pa is None or pb is None or len(pa) != len(pb):
            return False
        same = b_and(*[x == y for x, y in zip(pa[1:], pb[1:])])
        return implied(same)
    return eq


def segy_item(kind, bs, rate, nb, props, opts=None):
    """kind: 'regular' | '2d' | 'irregular'."""
    opts = opts or {}
    from shims import segy as shsegy

    def fn():
        E = eng()
        mm, fs = setup_path(opts.get('version', '0.2.5'))
        C = mm['conversion']
        Filetype = mm['seismicfile'].Filetype
        cap = opts.get('dimcap', 1)
        fmt = opts.get('fmt', 1)
        ext = opts.get('ext', 0)
        detection = opts.get('detection', 'heuristic')
        il0, xl0, il_step, xl_step = opts.get('il0', 10), opts.get('xl0', 20), opts.get('il_step', 1), opts.get('xl_step', 1)
        if opts.get('axes') == 'sym':
            il0, xl0 = E.fresh('il0', -2 ** 31, 2 ** 31 - 1), E.fresh('xl0', -2 ** 31, 2 ** 31 - 1)
        varying, H = {}, {}
        for f in opts.get('varying', ()):
            H[f] = Hdr('hdr_%d' % f, 1, bits=8 * shsegy.field_width(f))
            varying[f] = (lambda t, f=f: H[f](t))
        consts = dict(opts.get('consts', {}))
        t0_ms, dt_ms = opts.get('t0_ms', 0), opts.get('dt_ms', 4)
        if opts.get('samples') == 'sym':
            t0_ms = E.fresh('t0_ms', -32768, 32767)
            dt_ms = E.fresh('dt_ms', 1, 32)      # 2-byte signed interval field: segyio replaces anything above 32767 us by its fallback
        dt_us_fp = None
        if opts.get('samples') == 'fp':
            # any whole number of microseconds: binary64 arithmetic of the sample axis is decided with z3's FP theory
            import symx.core as _core
            from symx import fpworld as _fw
            _core.FP_MODE[0] = True
            _fw.reset()
            _fw.CFG.update(z3_ms=20000, cvc5_s=opts.get('cvc5_s', 300), use_cvc5=True)
            t0_ms = E.fresh('t0_ms', *opts.get('t0_range', (-32768, 32767)))
            dt_us_fp = E.fresh('dt_us', *opts.get('dt_range', (1, 32767)))
            dt_ms = None
        else:
            import symx.core as _core
            from symx import fpworld as _fw
            _core.FP_MODE[0] = False
            _fw.reset()
        if kind == '2d':
            ntr = E.fresh('n_tr', max(2, (nb[0] - 1) * bs[1] + 1), nb[0] * bs[1])
            # enumerated: just above the last full group, and the exact multiple of the group size
            if opts.get('dimsel') == 'top':
                E.assume(ntr == nb[0] * bs[1])
            elif opts.get('dimsel') == 'low':
                E.assume(ntr <= max(2, (nb[0] - 1) * bs[1]) + cap + 1)
            else:
                E.assume(b_or(ntr <= max(2, (nb[0] - 1) * bs[1]) + cap + 1, ntr == nb[0] * bs[1]))
            n_s = E.fresh('n_s', max(2, (nb[1] - 1) * bs[2] + 1), nb[1] * bs[2])
            if opts.get('ns_fixed') is not None:
                E.assume(n_s == opts['ns_fixed'])
                n_s = int(n_s)
            ntr = int(ntr)      # the converters build range() objects over the traces: enumerated within the stated cap
            model = shsegy.SegyModel('2d', n_s, fmt=fmt, ext=ext, tracecount=ntr, varying=varying, consts=consts,
                                     t0_ms=t0_ms, dt_ms=dt_ms)
            dims = (ntr, n_s)
        else:
            n_il = E.fresh('n_il', max(2, (nb[0] - 1) * bs[0] + 1), nb[0] * bs[0])
            n_xl = E.fresh('n_xl', max(2, (nb[1] - 1) * bs[1] + 1), nb[1] * bs[1])
            if not opts.get('ilxl'):
                # enumerated: just above the last full block and (when asked) the exact multiple of the block size
                top = bool(opts.get('dimtop'))
                E.assume(b_or(n_il <= max(2, (nb[0] - 1) * bs[0]) + cap, b_and(top, n_il == nb[0] * bs[0])))
                E.assume(b_or(n_xl <= max(2, (nb[1] - 1) * bs[1]) + cap, b_and(top, n_xl == nb[1] * bs[1])))
            n_s = E.fresh('n_s', max(2, (nb[2] - 1) * bs[2] + 1), nb[2] * bs[2])
            if opts.get('ns_cap') is not None:
                E.assume(n_s <= max(2, (nb[2] - 1) * bs[2]) + opts['ns_cap'])
            if opts.get('ilxl'):
                E.assume(b_and(n_il == opts['ilxl'][0], n_xl == opts['ilxl'][1]))
            n_il, n_xl = int(n_il), int(n_xl)      # Geometry3d builds range() objects over both line axes: enumerated within the cap
            if opts.get('ns_fixed') is not None:
                E.assume(n_s == opts['ns_fixed'])      # float items: one trace length per item (it multiplies floats)
                n_s = int(n_s)
            if opts.get('reduce_iops'):
                n_s = int(n_s)      # byte offsets of the reduced-I/O reader are products with the trace length: enumerated (ns_cap)
            if opts.get('axes') == 'sym':
                for a0, stp, n in ((il0, il_step, n_il), (xl0, xl_step, n_xl)):
                    last = a0 + (n - 1) * stp
                    E.assume(b_and(last >= -2 ** 31, last <= 2 ** 31 - 1))
            holes = ()
            if kind == 'irregular':
                nh = opts.get('holes', 1)
                hs = []
                for j in range(nh):
                    hs.append(int(E.fresh('hole%d' % j, 0 if not hs else hs[-1] + 1, n_il * n_xl - 1)))
                # every inline and every crossline keeps at least one trace (the property's quantifier)
                for i in range(n_il):
                    if all((i * n_xl + x) in hs for x in range(n_xl)):
                        raise Infeasible()
                for x in range(n_xl):
                    if all((i * n_xl + x) in hs for i in range(n_il)):
                        raise Infeasible()
                holes = tuple(hs)
            model = shsegy.SegyModel(kind, n_s, fmt=fmt, ext=ext, n_il=n_il, n_xl=n_xl, il0=il0, il_step=il_step, xl0=xl0, xl_step=xl_step,
                                     varying=varying, consts=consts, t0_ms=t0_ms, dt_ms=dt_ms, holes=holes)
            dims = (n_il, n_xl, n_s)
        if H:
            ntr_c = model.tracecount if not is_sym(model.tracecount) else None

            def watch(zm, H=H, ntr_c=ntr_c):
                out = {}
                for f, h in H.items():
                    half = 2 ** (h.bits - 1)
                    for t in range(ntr_c or 0):
                        raw = zm.eval(h.fn(z3.IntVal(t)), model_completion=True).as_long()
                        out['hv_%d_%d' % (f, t)] = ((raw + half) % (2 * half)) - half
                return out
            E.watches.append(watch)
        model.dt_us_fp = dt_us_fp
        shsegy.install_segy(mm, fs, model, Filetype)
        lazyarr.ARRAY_EQUAL_HOOK[0] = array_equal_hook(model)
        lazyarr.NP_ALL_HOOK[0] = np_all_hook
        win = opts.get('window')
        kw = {}
        if win == 'sym':
            w = [E.fresh(n) for n in ('min_il', 'max_il', 'min_xl', 'max_xl')]
            E.assume(b_and(w[0] >= 0, w[0] < w[1], w[1] <= dims[0], w[2] >= 0, w[2] < w[3], w[3] <= dims[1]))
            fam = opts.get('win_family')
            if fam == 'il-from-zero':
                E.assume(b_and(w[0] == 0, w[2] == 0, w[3] == dims[1]))
            elif fam == 'il-interior':
                E.assume(b_and(w[0] >= 1, w[2] == 0, w[3] == dims[1]))
            elif fam == 'xl-from-zero':
                E.assume(b_and(w[0] == 0, w[1] == dims[0], w[2] == 0))
            elif fam == 'xl-interior':
                E.assume(b_and(w[0] == 0, w[1] == dims[0], w[2] >= 1))
            elif fam == 'both-interior':
                E.assume(b_and(w[0] >= 1, w[2] >= 1, w[1] < dims[0], w[3] < dims[1]))
            kw = dict(min_il=w[0], max_il=w[1], min_xl=w[2], max_xl=w[3])
        try:
            with Quiet():
                conv = C.SegyConverter(model.name, **kw)
                if opts.get('runs') == 2:
                    conv.run('first.sgz', bits_per_voxel=4, blockshape=(1, 16, -1) if kind == '2d' else (4, 4, -1))
                conv.run('out.sgz', bits_per_voxel=opts.get('bpv_in', rate), blockshape=opts.get('bs_in', bs),
                         reduce_iops=bool(opts.get('reduce_iops')), header_detection=detection)
        except Exception as e:
            if opts.get('samples') != 'fp':
                raise
            # float items: a path may have been entered although the float world could not decide its feasibility in the
            # branch budget; whether this exception can really happen is decided with the full path condition
            E.check(False, 'segy: the conversion of a valid source raised %s' % type(e).__name__)
            return
        E.reached('segy:converted')
        st = fs.stores['out.sgz']
        return finish_segy(E, mm, fs, st, model, dims, bs, rate, props, opts, kw, H)
    return fn


def np_all_hook(a):
    """np.all(boolean lazy array): True iff every element is implied true (decided with one symbolic index)."""
    if a.ndim != 1:
        raise Unsupported("np.all on an n-d lazy array")
    n = a.shape[0]
    n = int(n) if is_sym(n) else n
    for i in range(n):
        v = a.get((i,))
        if isinstance(v, tuple):
            raise Unsupported("np.all over opaque values")
        if not v:          # a symbolic element forks: exact semantics of all()
            return False
    return True


def _all_fork(E, v):
    # np.all is a universal statement; it is True on this path iff the element predicate is implied for every index
    return implied(v)


def finish_segy(E, mm, fs, st, model, dims, bs, rate, props, opts, window, H):
    is2d = model.kind == '2d'
    detection = opts.get('detection', 'heuristic')
    label = 'segy' + ('-2d' if is2d else '')
    # which fields are stored is decided by the real classification code; read it back from the written table
    stored = []
    for i, f in enumerate(spec.TRACE_FIELDS):
        row = [read_field(st, 980 + 12 * i + 4 * j, '<i') for j in range(3)]
        if implied(b_and(row[1] == 0, row[2] == f)):
            stored.append(f)
    part = opts.get('part')
    if ('C01' in props or 'C09' in props) and part in (None, 'samples'):
        R = mm['read']
        with Quiet():
            r = R.SgzReader(shenv.ShimFile(st))
        if is2d:
            E.check(b_and(r.tracecount == dims[0], r.n_samples == dims[1]), label + ': the file states the source shape')
            v = [E.fresh(n, 0) for n in ('t', 'z')]
            E.assume(b_and(v[0] < dims[0], v[1] < dims[1]))
            with Quiet():
                sec = r.read_subplane(v[0], v[0] + 1, v[1], v[1] + 1)
            E.reached(label + ':probe')
            expect_source_voxel(E, st, sec.get((0, 0)), v, dims, label + ': read-back sample', model=model)
        else:
            E.check(b_and(r.n_ilines == dims[0], r.n_xlines == dims[1], r.n_samples == dims[2]), label + ': the file states the source shape')
            v = [E.fresh(n, 0) for n in ('i', 'x', 'z')]
            E.assume(b_and(*[v[k] < dims[k] for k in range(3)]))
            with Quiet():
                vox = r.read_subvolume(v[0], v[0] + 1, v[1], v[1] + 1, v[2], v[2] + 1)
            E.reached(label + ':probe')
            expect_source_voxel(E, st, vox.get((0, 0, 0)), v, dims, label + ': read-back voxel', model=model)
    if 'C20' in props:
        shenv.ctx().last_store = st
        check_hash(E, dims, label, is2d=is2d, model=model)
    win = None
    if window:
        win = (window['min_il'], window['max_il'], window['min_xl'], window['max_xl'])
    if ('C04' in props or 'C09' in props or 'C11' in props) and part in (None, 'headers'):
        check_segy_headers(E, mm, st, model, dims, detection, label, H, win)
    if 'C05' in props and getattr(model, 'dt_us_fp', None) is not None:
        check_axes_fp(E, mm, st, model, dims, label)
    elif 'C05' in props:
        R = mm['read']
        with Quiet():
            r = R.SgzReader(shenv.ShimFile(st))
        if is2d:
            zs = r.zslices
            E.reached(label + ':axes')
            E.check(zs.shape[0] == dims[1], label + ': sample axis has the source count')
            k = E.fresh('k_z', 0)
            E.assume(b_and(k < dims[1], k < zs.shape[0]))
            E.check(aget(zs, k) == model.t0_ms + k * model.dt_ms, label + ': sample axis value k = t0 + k*interval')
            E.check(r.tracecount == dims[0], label + ': trace count')
        else:
            check_axes(E, r, dims, model.il0, model.il_step, model.xl0, model.xl_step, model.t0_ms, model.dt_ms, label)
    if 'C11' in props:
        check_window(E, mm, st, model, dims, bs, rate, win, label, H)
    if 'C08' in props:
        check_irregular(E, mm, st, model, dims, bs, rate, label, dict(opts, _H=H))
    if 'C18' in props:
        check_crash_prefix(E, mm, st, model, dims, label, opts, H)
    return stored


def same_prov(a, b):
    """Structural equality of two provenance values (tuples / ints / SymInts), SymInts by implication."""
    if isinstance(a, tuple) and isinstance(b, tuple):
        return len(a) == len(b) and all(same_prov(x, y) for x, y in zip(a, b))
    if isinstance(a, (int, SymInt)) and isinstance(b, (int, SymInt)) and not isinstance(a, bool) and not isinstance(b, bool):
        return implied(a == b)
    if isinstance(a, LazyArr) or isinstance(b, LazyArr):
        return a is b
    try:
        return bool(a == b)
    except Exception:
        return a is b


def partial_store(E, st):
    """The file as it is after a crash: a symbolic prefix of the recorded write sequence, the last write cut at a symbolic
    byte (writes through second handles - the in-place patches - are part of the sequence)."""
    from shims.lazybytes import LazyBytes
    writes = list(st.writes)
    p = int(E.fresh('crash_prefix', 0, len(writes)))
    content = LazyBytes(0, [], True)
    for k, (pos, n, b) in enumerate(writes[:p + 1]):
        if k == p:
            if p == len(writes):
                break
            cut = E.fresh('crash_cut', 0)
            E.assume(cut < n)
            if opts_granularity[0] == 'write':
                E.assume(cut == 0)
            n = cut
            b = LazyBytes(n, [(0, n, b, 0)], False)
        if k >= len(writes):
            break
        if implied(pos > content.length):
            content.layers.append((content.length, pos - content.length, LazyBytes.zeros(pos - content.length), 0))
        content.layers.append((pos, n, b, 0))
        end = pos + n
        if not implied(end <= content.length):
            content.length = fx(end) if implied(end > content.length) else content.length
    ps = shenv.FileStore(content, 'partial.sgz')
    return ps, p, len(writes)


opts_granularity = ['byte']


def check_crash_prefix(E, mm, st, model, dims, label, opts, H):
    """C18 writer side: every read on the partial file raises or returns what the complete file returns."""
    import segyio
    R = mm['read']
    opts_granularity[0] = opts.get('granularity', 'byte')
    ps, p, nw = partial_store(E, st)
    E.reached(label + ':crash')
    call = opts.get('call', 'header')
    is2d = model is not None and model.kind == '2d'
    ntr = dims[0] if is2d else dims[0] * dims[1]

    def run(store):
        with Quiet():
            r = R.SgzReader(shenv.ShimFile(store))
            if call == 'header':
                t = E.fresh('trace', 0)
                E.assume(t < ntr)
                h = r.gen_trace_header(t)
                return tuple(h[segyio.tracefield.TraceField(f)] for f in spec.TRACE_FIELDS)
            if call == 'tracefield':
                g = r.get_tracefield_values(opts.get('field', 189))
                q = E.fresh('g', 0)
                E.assume(q < ntr)
                flat = g.reshape((g.size,)) if g.ndim > 1 else g
                return (flat.shape[0], flat.get((q,)))
            if call == 'voxel':
                v = [E.fresh(n_, 0) for n_ in (('t', 'z') if is2d else ('i', 'x', 'z'))]
                E.assume(b_and(*[v[k] < dims[k] for k in range(len(v))]))
                if is2d:
                    return r.read_subplane(v[0], v[0] + 1, v[1], v[1] + 1).get((0, 0))
                return r.read_subvolume(v[0], v[0] + 1, v[1], v[1] + 1, v[2], v[2] + 1).get((0, 0, 0))
            if call == 'hash':
                return r.headerbytes.resolve(960, 20)
            if call == 'geometry':
                return (r.n_samples, r.tracecount)
    try:
        want = run(st)
    except Exception as e:
        want = ('raises', type(e).__name__)
    try:
        got = run(ps)
    except Exception:
        E.check(True, label + ': the partial file is refused')
        return
    E.check(same_prov(got, want), label + ': %s on the partial file (after %d of %d writes) equals the same call on the complete file' % (call, p, nw))


def check_irregular(E, mm, st, model, dims, bs, rate, label, opts):
    """C08: inferred grid, trace identity, zero-filled holes."""
    import segyio
    R = mm['read']
    holes = [int(h) for h in model.holes]
    n_il, n_xl, n_s = dims
    part = opts.get('part', 'geometry')
    if opts.get('detection', 'heuristic') == 'heuristic':
        assume_heuristic_precondition(E, model, opts.get('_H', {}), False)
    with Quiet():
        r = R.SgzReader(shenv.ShimFile(st))
    E.reached(label + ':irregular')

    def zero_fill(E, inp, raw, msg):
        gi, gx, z = raw
        inside = b_and(gi < n_il, gx < n_xl, z < n_s)
        present = b_and(inside, *[b_not(gi * n_xl + gx == h) for h in holes])
        if present is True or (present is not False and bool(present)):
            ninp = norm_source(inp, model)
            if ninp is None:
                return E.check(False, msg + ': a cell input at a populated grid position is not a source sample (%s)' % (inp[0] if isinstance(inp, tuple) and inp else type(inp).__name__))
            return E.check(b_and(ninp[1] == gi, ninp[2] == gx, ninp[3] == z), msg + ': a populated grid position holds the trace with that inline / crossline number')
        return E.check(isinstance(inp, tuple) and inp == ('zero',), msg + ': holes and padding are zero before compression (%s)' % (inp[0] if isinstance(inp, tuple) and inp else type(inp).__name__))

    if part == 'geometry':
        E.check(b_and(r.n_ilines == n_il, r.n_xlines == n_xl, r.n_samples == n_s), label + ': grid dimensions are the inferred ones')
        E.check(r.tracecount == model.tracecount, label + ': trace count is the number of source traces')
        E.check(bool(r.structured) is False, label + ': structured flag is False')
        for name, ax, n, a0, stp in (('ilines', r.ilines, n_il, model.il0, model.il_step), ('xlines', r.xlines, n_xl, model.xl0, model.xl_step)):
            k = E.fresh('k_' + name, 0)
            E.assume(b_and(k < n, k < ax.shape[0]))
            E.check(b_and(ax.shape[0] == n, aget(ax, k) == a0 + k * stp), label + ': %s = range of numbers present with its own increment' % name)
        # tracefield grid with zeros at holes
        for f in (189, 193):
            try:
                with Quiet():
                    g = r.get_tracefield_values(f)
            except Exception as e:
                E.check(False, label + ': get_tracefield_values(%d) raised %s on the irregular file' % (f, type(e).__name__))
                continue
            q = [E.fresh('g0', 0), E.fresh('g1', 0)]
            E.assume(b_and(q[0] < n_il, q[1] < n_xl))
            got = g.get(tuple(q)) if isinstance(g, LazyArr) else None
            pos = q[0] * n_xl + q[1]
            is_hole = b_or(*[pos == h for h in holes]) if holes else False
            if is_hole is True or (is_hole is not False and bool(is_hole)):
                E.check(got == 0, label + ': get_tracefield_values is 0 at holes')
            else:
                want = (model.il0 + q[0] * model.il_step) if f == 189 else (model.xl0 + q[1] * model.xl_step)
                E.check(got == want, label + ': get_tracefield_values holds the header value at populated positions')
    if part == 'traces':
        t = E.fresh('trace', 0)
        E.assume(t < model.tracecount)
        try:
            with Quiet():
                tr = r.get_trace(t)
                h = r.gen_trace_header(t)
        except Exception as e:
            E.check(False, label + ': get_trace / gen_trace_header of an existing trace raised %s' % type(e).__name__)
            return
        z = E.fresh('z', 0)
        E.assume(b_and(z < n_s, z < tr.shape[0]))
        E.check(tr.shape[0] == n_s, label + ': trace length')
        gi, gx = model.il_x_of(t)
        expect_source_voxel(E, st, tr.get((z,)), (gi, gx, z), dims, label + ': trace i is the i-th source trace', zero_fill=zero_fill, model=model)
        for f in ((189, 193, 1, 37) if opts.get('detection', 'heuristic') == 'heuristic' else (189, 193, 73, 1, 37)):
            v = h[segyio.tracefield.TraceField(f)]
            E.check((not isinstance(v, tuple)) and (v == model.header_value(t, f)), label + ': header i is the i-th source header (field %d)' % f)
    if part == 'volume':
        v = [E.fresh(n, 0) for n in ('i', 'x', 'z')]
        E.assume(b_and(*[v[k] < dims[k] for k in range(3)]))
        with Quiet():
            vox = r.read_subvolume(v[0], v[0] + 1, v[1], v[1] + 1, v[2], v[2] + 1)
        expect_source_voxel(E, st, vox.get((0, 0, 0)), v, dims, label + ': volume voxel', zero_fill=zero_fill, model=model)


def source_trace_of(model, dims, win, t):
    """Source trace ordinal of output grid trace t (window: output grid is the window)."""
    if model.kind == '2d' or win is None:
        return t
    wx = win[3] - win[2]
    i, x = t // wx, t % wx
    return (win[0] + i) * dims[1] + (win[2] + x)


def assume_heuristic_precondition(E, model, H, is2d):
    """The property's precondition for 'heuristic' detection: every field is constant or differs between the first and
    the last trace, and no two differing fields coincide on both."""
    last = model.tracecount - 1
    fs = sorted(H)
    for f in fs:
        E.assume(b_not(H[f](0) == H[f](last)))
    geo = [] if is2d else [189, 193]
    allv = [(f, model.header_value(0, f), model.header_value(last, f)) for f in fs + geo]
    for a in range(len(allv)):
        for b in range(a):
            E.assume(b_not(b_and(allv[a][1] == allv[b][1], allv[a][2] == allv[b][2])))


def check_segy_headers(E, mm, st, model, dims, detection, label, H, win=None):
    """C04: every one of the 89 fields of every trace reads back as in the source; file headers byte-identical."""
    import segyio
    R = mm['read']
    is2d = model.kind == '2d'
    n_out = dims[0] if is2d else ((win[1] - win[0]) * (win[3] - win[2]) if win else dims[0] * dims[1])
    if detection == 'heuristic':
        assume_heuristic_precondition(E, model, H, is2d)
    with Quiet():
        r = R.SgzReader(shenv.ShimFile(st))
    t = E.fresh('hdr_trace', 0)
    E.assume(t < n_out)
    E.reached(label + ':headers')
    with Quiet():
        h = r.gen_trace_header(t)
    src_t = source_trace_of(model, dims, win, t)
    for f in spec.TRACE_FIELDS:
        v = h[segyio.tracefield.TraceField(f)]
        want = 0 if detection == 'strip' else model.header_value(src_t, f)
        if isinstance(v, tuple):
            E.check(False, label + ': header field %d is not an integer (%s)' % (f, v[0]))
        else:
            E.check(v == want, label + ': header field %d of every trace equals the source (%s detection)' % (f, detection))
    # the 3600-byte SEG-Y file header is copied verbatim
    q = E.fresh('fh_byte', 0, 3599)
    leaf = st.content.resolve(4096 + q, 1)
    ok = isinstance(leaf[0], tuple) and leaf[0] == ('segy-filehdr', id(model))
    E.check(b_and(ok, leaf[1] == q) if ok else False, label + ': bytes 4096..7695 are the SEG-Y textual + binary file header')


def check_window(E, mm, st, model, dims, bs, rate, win, label, H):
    """C11: the windowed conversion equals the conversion of the windowed cube."""
    R = mm['read']
    wd = (win[1] - win[0], win[3] - win[2], dims[2])
    with Quiet():
        r = R.SgzReader(shenv.ShimFile(st))
    E.reached(label + ':window')
    E.check(b_and(r.n_ilines == wd[0], r.n_xlines == wd[1], r.n_samples == wd[2]), label + ': windowed file has the shape of the window')
    E.check(r.tracecount == wd[0] * wd[1], label + ': trace count equals the window')
    # axes: those of the windowed traces
    for name, ax, n, a0, stp, off in (('ilines', r.ilines, wd[0], model.il0, model.il_step, win[0]), ('xlines', r.xlines, wd[1], model.xl0, model.xl_step, win[2])):
        k = E.fresh('k_' + name, 0)
        E.assume(b_and(k < n, k < ax.shape[0]))
        E.check(b_and(ax.shape[0] == n, aget(ax, k) == a0 + (off + k) * stp), label + ': %s are the line numbers of the windowed traces' % name)
    # samples: C01 for the sub-cube
    v = [E.fresh(n, 0) for n in ('i', 'x', 'z')]
    E.assume(b_and(*[v[k] < wd[k] for k in range(3)]))
    E.assume(b_and(v[0] < r.n_ilines, v[1] < r.n_xlines, v[2] < r.n_samples))
    with Quiet():
        vox = r.read_subvolume(v[0], v[0] + 1, v[1], v[1] + 1, v[2], v[2] + 1)
    sub = WindowedModel(model, win)
    expect_source_voxel(E, st, vox.get((0, 0, 0)), v, wd, label + ': voxel of the windowed file', model=sub)
    # container for the window's trace count
    stored = []
    for i, f in enumerate(spec.TRACE_FIELDS):
        row = [read_field(st, 980 + 12 * i + 4 * j, '<i') for j in range(3)]
        if implied(b_and(row[1] == 0, row[2] == f)):
            stored.append(f)
    stride = spec.pad_to(4 * wd[0] * wd[1], 512)
    pad = tuple(spec.pad_to(n, b) for n, b in zip(wd, bs))
    num, den = (rate).as_integer_ratio() if isinstance(rate, float) else (rate, 1)
    data_bytes = (pad[0] * pad[1] * pad[2] * num) // (8 * den)
    E.check(read_field(st, 60, '<I') == 4 * wd[0] * wd[1], label + ': header-array length field is 4 bytes per window trace')
    E.check(st.content.length == 8192 + data_bytes + stride * len(stored), label + ': file length is that of the windowed cube')


class WindowedModel:
    """View of the source restricted to the window: sample provenance re-indexed to window coordinates."""
    def __init__(self, model, win):
        self.m, self.win = model, win
        self.fmt = model.fmt

    def sample_prov(self, t, k):
        p = self.m.sample_prov(t, k)
        return ('src', p[1] - self.win[0], p[2] - self.win[2], p[3])


# ------------------------------------------------------------------------------------------------ items
def items_for(prop, tier):
    from .runner import Item
    items = []
    quick = tier == 'quick'
    lays = [((4, 4, 256), 8), ((4, 4, 1024), 2), ((4, 4, 8192), 0.25), ((64, 64, 4), 2), ((8, 8, 64), 8), ((4, 8, 128), 8),
            ((16, 16, 16), 8), ((8, 4, 128), 8)] if quick else thorough_layouts_3d()[::2]
    for bs, rate in (lays if prop in ('C01', 'C03', 'C20') else []):
        if prop == 'C18':
            break
        nbs = [(2, 2, 2)] if quick else [(2, 2, 2), (3, 1, 2)]
        if quick and not (bs[0] == 4 and bs[1] == 4):
            # general layouts put one block per compress call: two blocks along two axes, rotating which axis has one
            nbs = [(2, 2, 1)] if bs[2] == 4 else [(2, 1, 2), (1, 2, 2)]
        for nb in nbs:
            variants = [{}]
            if prop == 'C04':
                variants = [dict(headers=((73, 'i4'),))]
            if prop == 'C03':
                variants = [dict(headers=((73, 'i4'),), part=part) for part in ('container', 'data', 'footer')]
            for opts in variants:
                desc = 'numpy|%s|bs=%s|rate=%s|nb=%s' % (prop, 'x'.join(map(str, bs)), rate, 'x'.join(map(str, nb)))
                if 'part' in opts:
                    desc += '|' + opts['part']
                it = Item(desc, (lambda bs=bs, rate=rate, nb=nb, opts=opts: numpy_item(bs, rate, nb, {prop}, opts)),
                          timeout_s=200 if quick else 500, solver_ms=10000 if quick else 60000)
                it.meta = dict(kind='numpy', bs=list(bs), rate=rate, nb=list(nb), opts={k: v for k, v in opts.items()}, prop=prop)
                items.append(it)
    if prop in ('C01', 'C20', 'C09'):
        from .runner import Item as _I
        segy_cfgs = []
        if prop in ('C01', 'C20'):
            lays3 = [((4, 4, 256), 8, (2, 2, 2)), ((8, 8, 64), 8, (2, 1, 2)), ((4, 8, 128), 8, (1, 2, 2)), ((64, 64, 4), 2, (2, 1, 1))] if quick else \
                [((4, 4, 256), 8, (2, 2, 2)), ((4, 4, 1024), 2, (3, 2, 1)), ((8, 8, 64), 8, (2, 1, 2)), ((8, 8, 64), 8, (1, 2, 2)), ((4, 8, 128), 8, (1, 2, 2)),
                 ((4, 8, 128), 8, (2, 1, 2)), ((64, 64, 4), 2, (2, 1, 1)), ((16, 16, 16), 8, (2, 2, 2)), ((4, 4, 8192), 0.25, (2, 2, 2))]
            for bs, rate, nb in lays3:
                for o in (dict(fmt=1), dict(fmt=5), dict(fmt=1, reduce_iops=True, ns_cap=2), dict(fmt=5, reduce_iops=True, ns_cap=2),
                          dict(fmt=1, ext=1), dict(fmt=1, ext=1, reduce_iops=True, ns_cap=2)):
                    if quick and bs != (4, 4, 256) and (o.get('ext') or o.get('fmt') == 5):
                        continue
                    # dimtop: the exact multiple of the block size is among the enumerated line counts (last plane set full)
                    segy_cfgs.append(('regular', bs, rate, nb, dict(o, dimtop=True)))
        lays2 = [((1, 16, 256), 8, (3, 2)), ((1, 4, 1024), 8, (3, 2)), ((1, 64, 64), 8, (2, 2))] if quick else \
            [(l[0], l[1], nb) for l in thorough_layouts_2d()[::3] for nb in ((2, 2), (3, 1)) if nb[1] * l[0][2] <= 2 ** 15]
        for bs, rate, nb in lays2:
            for o in (dict(fmt=1), dict(fmt=5)) if not quick else (dict(fmt=1),):
                if prop == 'C09':
                    for sel in ('low', 'top'):
                        segy_cfgs.append(('2d', bs, rate, nb if sel == 'low' else (2, nb[1]), dict(o, part='samples', dimsel=sel, dimcap=0)))
                        segy_cfgs.append(('2d', bs, rate, (2, 1), dict(o, part='headers', varying=(73, 21), dimcap=0, dimsel=sel)))
                else:
                    segy_cfgs.append(('2d', bs, rate, nb, o))
        for kind, bs, rate, nb, o in segy_cfgs:
            desc = 'segy-%s|%s|bs=%s|rate=%s|nb=%s|%s' % (kind, prop, 'x'.join(map(str, bs)), rate, 'x'.join(map(str, nb)),
                                                        ','.join('%s=%s' % kv for kv in sorted(o.items())))
            it = _I(desc, (lambda kind=kind, bs=bs, rate=rate, nb=nb, o=o: segy_item(kind, bs, rate, nb, {prop}, o)),
                    timeout_s=200 if quick else 500, solver_ms=10000 if quick else 60000)
            it.meta = dict(kind='segy-' + kind, bs=list(bs), rate=rate, nb=list(nb), opts=dict(o), prop=prop)
            items.append(it)
    if prop in ('C04', 'C05', 'C11'):
        from .runner import Item as _I
        cfgs = []
        if prop == 'C04':
            for det in ('heuristic', 'thorough', 'exhaustive', 'strip'):
                small = det in ('thorough', 'exhaustive')
                cfgs.append(('regular', (4, 4, 256), 8, (1, 1, 1) if small else (2, 2, 1), dict(detection=det, varying=(73,), consts={37: 5}, dimcap=1 if small else 2)))
                cfgs.append(('2d', (1, 16, 256), 8, (1, 1) if small else (2, 1), dict(detection=det, varying=(73, 21), consts={37: 5}, dimcap=1)))
            # trace counts whose 4x length is / is not a multiple of 512, two stored arrays beyond the geometry ones
            for ilxl in ((8, 16), (16, 16), (9, 15)):
                cfgs.append(('regular', (8, 8, 64), 8, (2, 2, 1), dict(detection='heuristic', varying=(73, 21), ilxl=ilxl, dimcap=8)))
            if not quick:
                cfgs.append(('regular', (4, 4, 256), 8, (2, 2, 1), dict(detection='heuristic', varying=(73, 21, 181), consts={37: 5, 29: -3}, dimcap=2, reduce_iops=True, ns_cap=1)))
        if prop == 'C05':
            for steps in ((1, 1), (2, 3), (-1, 1), (1, -2)) if not quick else ((2, 3), (-1, 1)):
                cfgs.append(('regular', (4, 4, 256), 8, (2, 2, 1), dict(axes='sym', il_step=steps[0], xl_step=steps[1], dimcap=1)))
            cfgs.append(('regular', (4, 4, 256), 8, (1, 1, 2), dict(samples='sym', dimcap=1)))
            cfgs.append(('2d', (1, 16, 256), 8, (1, 2), dict(samples='sym', dimcap=1)))
            # binary64 part: any whole-microsecond interval.  Each item is one (interval range, start-time range, trace
            # length) box; the solver time of a float query grows with the number of (interval, start) pairs in the box
            # (SEG-Y route: the interval field is a 2-byte signed number for segyio, which replaces anything above 32767 us by its
            # 4000 us fallback - the source as segyio presents it; the boxes therefore end at 32767)
            fp_boxes = [((1, 4095), (-2, 2), 3), ((4096, 16383), (-2, 2), 3), ((16384, 24575), (-2, 2), 3), ((24576, 32767), (-2, 2), 3),
                        ((1, 999), (0, 0), 2), ((1, 999), (-1000, -1000), 7), ((1000, 1063), (7, 7), 100),
                        ((1000, 1001), (-32768, 32767), 3)]
            if not quick:
                fp_boxes += [((lo, lo + 4095), (-16, 16), 3) for lo in range(1, 32767, 4096)]
                fp_boxes += [((1000, 1999), (7, 7), 100), ((1000, 1031), (-32768, 32767), 3), ((1, 1023), (0, 0), 256), ((333, 333 + 63), (-32768, 32767), 5), ((32000, 32767), (-32768, -32000), 4), ((32000, 32767), (32000, 32767), 4)]
            for dtr, t0r, ns in fp_boxes:
                dtr = (dtr[0], min(dtr[1], 32767))
                cfgs.append(('regular', (4, 4, 256), 8, (1, 1, 1), dict(samples='fp', dt_range=dtr, t0_range=t0r, ilxl=(2, 2), dimcap=4, ns_fixed=ns)))
            cfgs.append(('2d', (1, 16, 256), 8, (1, 1), dict(samples='fp', dt_range=(1, 32767), t0_range=(0, 0), dimcap=0, ns_fixed=3)))
        if prop == 'C11':
            for fam in ('il-from-zero', 'il-interior', 'xl-from-zero', 'xl-interior', 'both-interior'):
                for ri in (False, True):
                    if quick and ri and fam not in ('il-interior', 'both-interior'):
                        continue
                    cfgs.append(('regular', (4, 4, 256), 8, (2, 2, 1), dict(window='sym', win_family=fam, varying=(73,), dimcap=1 if quick else 2, reduce_iops=ri,
                                                                            **(dict(ns_cap=1) if ri else {}))))
            if not quick:
                cfgs.append(('regular', (8, 8, 64), 8, (2, 2, 1), dict(window='sym', varying=(73,), dimcap=1)))
                cfgs.append(('regular', (4, 4, 256), 8, (3, 2, 1), dict(window='sym', varying=(73,), dimcap=1, detection='thorough')))
        for kind, bs, rate, nb, o in cfgs:
            desc = 'segy-%s|%s|bs=%s|rate=%s|nb=%s|%s' % (kind, prop, 'x'.join(map(str, bs)), rate, 'x'.join(map(str, nb)),
                                                        ','.join('%s=%s' % kv for kv in sorted(o.items())))
            isfp = o.get('samples') == 'fp'
            if isfp:
                o = dict(o, cvc5_s=400 if quick else 900)
            it = _I(desc, (lambda kind=kind, bs=bs, rate=rate, nb=nb, o=o: segy_item(kind, bs, rate, nb, {prop}, o)),
                    timeout_s=(1500 if quick else 3000) if isfp else (250 if quick else 600), solver_ms=10000 if quick else 60000)
            it.meta = dict(kind='segy-' + kind, bs=list(bs), rate=rate, nb=list(nb), opts=dict(o), prop=prop)
            items.append(it)
        if prop in ('C04', 'C05'):
            # NumPy route: header arrays of any integer dtype / symbolic axes
            ncfgs = []
            if prop == 'C04':
                for dt in ('i2', 'i4', 'i8', '>i4'):      # '>i4': non-native byte order (values sliced out of raw SEG-Y bytes)
                    ncfgs.append(dict(headers=((73, dt), (21, 'i4'))))      # (dict given in non-ascending field order)
            else:
                for steps in ((2, 3), (-1, 1)):
                    ncfgs.append(dict(axes='sym', il_step=steps[0], xl_step=steps[1]))
                ncfgs.append(dict(samples='sym'))
                # binary64 sample axis on the NumPy route (no 2-byte SEG-Y field: intervals up to 65535 us)
                for dtr, t0r, ns in ([((1, 4095), (-2, 2), 3), ((32768, 40959), (-1, 1), 3), ((65000, 65535), (-32768, -32760), 4)] if quick else
                                     [((lo, min(lo + 4095, 65535)), (-4, 4), 3) for lo in range(1, 65535, 8192)] + [((65000, 65535), (-32768, -32700), 4), ((1, 999), (0, 0), 100)]):
                    ncfgs.append(dict(samples='fp', dt_range=dtr, t0_range=t0r, fixed_dims=(2, 2, ns), cvc5_s=400 if quick else 900))
            for o in ncfgs:
                nb_ = (1, 1, 1) if o.get('fixed_dims') else (2, 2, 1)
                isfp = o.get('samples') == 'fp'
                desc = 'numpy|%s|bs=4x4x256|rate=8|nb=%s|%s' % (prop, 'x'.join(map(str, nb_)), ','.join('%s=%s' % kv for kv in sorted(o.items())))
                it = _I(desc, (lambda o=o, nb_=nb_: numpy_item((4, 4, 256), 8, nb_, {prop}, o)),
                        timeout_s=(1500 if quick else 3000) if isfp else (250 if quick else 600), solver_ms=10000 if quick else 60000)
                it.meta = dict(kind='numpy', bs=[4, 4, 256], rate=8, nb=list(nb_), opts=dict(o), prop=prop)
                items.append(it)
    if prop == 'C18':
        from .runner import Item as _I
        for det in ('heuristic', 'thorough'):
            for call in ('header', 'tracefield', 'tracefield-first', 'voxel', 'hash', 'geometry'):
                for gran in ('write', 'byte'):
                    if quick and gran == 'byte' and call in ('voxel', 'geometry', 'tracefield-first'):
                        continue
                    o = dict(detection=det, call=call.split('-')[0], granularity=gran, varying=(73,), consts={37: 5}, ilxl=(2, 3), dimcap=4, ns_cap=2)
                    if call == 'tracefield-first':
                        o['field'] = 1      # the first field of the table: its array would be the first one in the footer
                    desc = 'crash|segy|%s' % ','.join('%s=%s' % kv for kv in sorted(o.items()))
                    it = _I(desc, (lambda o=o: segy_item('regular', (4, 4, 256), 8, (1, 1, 1), {'C18'}, o)), timeout_s=250 if quick else 600)
                    it.meta = dict(kind='segy-regular', bs=[4, 4, 256], rate=8, nb=[1, 1, 1], opts=dict(o), prop='C18')
                    items.append(it)
        for call in ('header', 'voxel', 'hash'):
            o = dict(call=call, granularity='write', headers=((73, 'i4'),))
            it = _I('crash|numpy|call=%s' % call, (lambda o=o: numpy_item((4, 4, 256), 8, (1, 1, 1), {'C18'}, o)), timeout_s=250 if quick else 600)
            it.meta = dict(kind='numpy', bs=[4, 4, 256], rate=8, nb=[1, 1, 1], opts=dict(o), prop='C18')
            items.append(it)
    if prop == 'C08':
        from .runner import Item as _I
        cfgs = []
        for part in ('geometry', 'traces', 'volume'):
            for (il0, ils, xl0, xls) in ((10, 2, 20, 3), (0, 1, 5, 1), (-7, 3, -4, 2)) if not quick else ((10, 2, 20, 3), (0, 1, 5, 2), (-7, 3, -4, 2)):
                for nh in (1, 2):
                    if quick and nh == 2 and part != 'traces':
                        continue
                    if quick and il0 < 0 and (part != 'traces' or nh == 2):
                        continue
                    cfgs.append(((4, 4, 256), 8, (1, 1, 1), dict(part=part, holes=nh, il0=il0, il_step=ils, xl0=xl0, xl_step=xls, ilxl=(3, 4), varying=(73,), consts={37: 5}, dimcap=4, ns_cap=3)))
            cfgs.append(((4, 4, 256), 8, (2, 1, 1), dict(part=part, holes=1, il0=10, il_step=2, xl0=20, xl_step=3, ilxl=(6, 3), varying=(73,), dimcap=4, ns_cap=3)))
        cfgs.append(((4, 4, 256), 8, (1, 1, 1), dict(part='traces', holes=1, il0=10, il_step=2, xl0=20, xl_step=3, ilxl=(2, 3), detection='thorough', consts={37: 5},
                                                     varying=(73,), dimcap=4, ns_cap=2)))
        if not quick:
            cfgs.append(((8, 8, 64), 8, (1, 1, 2), dict(part='volume', holes=1, il0=10, il_step=2, xl0=20, xl_step=3, ilxl=(3, 4), dimcap=4)))
            cfgs.append(((4, 4, 256), 8, (1, 1, 1), dict(part='traces', holes=1, il0=10, il_step=2, xl0=20, xl_step=3, ilxl=(3, 4), detection='exhaustive', consts={37: 5}, dimcap=4)))
        for bs, rate, nb, o in cfgs:
            desc = 'segy-irregular|C08|bs=%s|nb=%s|%s' % ('x'.join(map(str, bs)), 'x'.join(map(str, nb)), ','.join('%s=%s' % kv for kv in sorted(o.items())))
            it = _I(desc, (lambda bs=bs, rate=rate, nb=nb, o=o: segy_item('irregular', bs, rate, nb, {'C08'}, o)), timeout_s=250 if quick else 600)
            it.meta = dict(kind='segy-irregular', bs=list(bs), rate=rate, nb=list(nb), opts=dict(o), prop='C08')
            items.append(it)
    if prop == 'C20':
        from .runner import Item as _I
        it = _I('numpy|C20|runs=2|bs=4x4x256|rate=8|nb=2x1x1', (lambda: numpy_item((4, 4, 256), 8, (2, 1, 1), {'C20'}, dict(runs=2))), timeout_s=200)
        it.meta = dict(kind='numpy', bs=[4, 4, 256], rate=8, nb=[2, 1, 1], opts=dict(runs=2), prop='C20')
        items.append(it)
        for kind, bs, nb in (('regular', (4, 4, 256), (2, 1, 1)), ('2d', (1, 16, 256), (2, 1))):
            it = _I('segy-%s|C20|runs=2|bs=%s|rate=8|nb=%s' % (kind, 'x'.join(map(str, bs)), 'x'.join(map(str, nb))),
                    (lambda kind=kind, bs=bs, nb=nb: segy_item(kind, bs, 8, nb, {'C20'}, dict(runs=2, fmt=1))), timeout_s=200)
            it.meta = dict(kind='segy-' + kind, bs=list(bs), rate=8, nb=list(nb), opts=dict(runs=2, fmt=1), prop='C20')
            items.append(it)
            # the hash is of the samples alone: every header-detection mode (incl. 'strip', which stores no header) gives it
            for det in ('strip', 'thorough') if quick else ('strip', 'thorough', 'exhaustive'):
                o = dict(fmt=1, detection=det, varying=(73,), dimcap=1)
                it = _I('segy-%s|C20|bs=%s|rate=8|nb=%s|detection=%s' % (kind, 'x'.join(map(str, bs)), 'x'.join(map(str, nb)), det),
                        (lambda kind=kind, bs=bs, nb=nb, o=o: segy_item(kind, bs, 8, nb, {'C20'}, o)), timeout_s=200 if quick else 500)
                it.meta = dict(kind='segy-' + kind, bs=list(bs), rate=8, nb=list(nb), opts=dict(o), prop='C20')
                items.append(it)
    if prop == 'C03':
        from .runner import Item as _I2
        o = dict(headers=((181, 'i4'), (73, 'i8')), part='footer')      # header dict in non-ascending field order, mixed dtypes
        it = _I2('numpy|C03|unsorted-headers|bs=4x4x256|nb=1x2x1|footer', (lambda o=o: numpy_item((4, 4, 256), 8, (1, 2, 1), {'C03'}, o)), timeout_s=200)
        it.meta = dict(kind='numpy', bs=[4, 4, 256], rate=8, nb=[1, 2, 1], opts=dict(o), prop='C03')
        items.append(it)
    if prop == 'C03':
        # the distribution version strings setuptools_scm can emit for this project (incl. the one installed here)
        for ver, tup in (('0.1.dev1+g45bcf9689', None), ('0.2.8', (0, 2, 8, True)), ('0.2.9.dev3+gabcdef0', (0, 2, 9, False)),
                         ('1.0.0', (1, 0, 0, True)), ('0.2.2', (0, 2, 2, True)), ('0.0.post1.dev1+g1234567.d20240131', None)):
            opts = dict(headers=((73, 'i4'),), part='container', version=ver)
            if tup:
                opts['version_tuple'] = tup
            it = Item('numpy|C03|version=%s|bs=4x4x256|nb=1x1x1' % ver, (lambda opts=opts: numpy_item((4, 4, 256), 8, (1, 1, 1), {'C03'}, opts)),
                      timeout_s=200, solver_ms=10000)
            it.meta = dict(kind='numpy', bs=[4, 4, 256], rate=8, nb=[1, 1, 1], opts=opts, prop='C03')
            items.append(it)
    return items


def replay_candidate(it, c):
    from .replayer import replay
    meta = it.meta
    req = dict(kind='writer', route=meta['kind'], bs=meta['bs'], rate=meta['rate'], model=c['model'], obligation=c['msg'], prop=meta['prop'],
               opts=meta.get('opts', {}), handlers=['replay.writers'])
    return replay(req)
