"""C02 access-path coherence / C14 bounds safety: every read API of the real reader vs the spec cell model."""
import sys
import time
from .common import QUICK_3D, QUICK_2D, valid_layouts_3d, valid_layouts_2d, thorough_layouts_3d, thorough_layouts_2d, spec
from . import readers
from .runner import Item, run_items, finish
from .replayer import replay

ASSUMPTIONS = [
    "file: any SGZ file conforming to docs/file-specification.md (header built from the spec table; data and footer bytes abstract, provenance ('file', offset))",
    "zfpy contract: fixed-rate stream = concatenation of independently coded 4^d cells in C order of the cell grid; a decoded voxel depends only on its cell's bytes (validated against real zfpy in replay/selftest)",
    "numpy stub = basic indexing semantics (validated against real numpy in shims/selftest.py); ThreadPoolExecutor stub runs tasks at submit and stores exceptions in futures",
    "psutil / print stubbed (no effect on results)",
    "dimensions symbolic within nb blocks per axis (every residue modulo 4 and modulo the blockshape); layouts enumerated",
    "trace / diagonal / line-number methods: n_xl (and n_il) concretised by forking over a stated finite set because the code divides by it",
]


def small_dims_ok(bs):
    return bs[0] <= 8 and bs[1] <= 8


def items_for(mode, tier):
    items = []
    lay3 = QUICK_3D if tier == 'quick' else thorough_layouts_3d()
    lay2 = QUICK_2D if tier == 'quick' else thorough_layouts_2d()
    nbs_q = [(2, 2, 2)]
    nbs_t = [(2, 2, 2), (3, 2, 1)]
    vol_methods = ['read_inline', 'read_crossline', 'read_zslice', 'read_subvolume']
    if mode == 'in':
        vol_methods.append('read_volume')
    rot = [(2, 2, 1), (1, 2, 2), (2, 1, 2)]
    for li, (bs, rate) in enumerate(lay3):
        if tier == 'quick':
            # default layouts are cheap: 2 blocks on every axis; general / z-slice layouts rotate which axis has one block
            nbs = [(2, 2, 2)] if (bs[0] == 4 and bs[1] == 4) or bs in ((8, 8, 64),) else [rot[li % 3]]
        else:
            nbs = nbs_t
        for nb in nbs:
            for mname in vol_methods:
                items.append(mk_item(mname, bs, rate, nb, mode, tier))
    # long boxes along one axis (more than 8 compression units = 32 lines), default and general layouts
    long_items = [((4, 4, 256), 8, (10, 1, 1)), ((4, 4, 256), 8, (1, 10, 1)), ((8, 8, 64), 8, (5, 1, 2))] if tier == 'quick' else \
        [((4, 4, 256), 8, (10, 1, 1)), ((4, 4, 256), 8, (1, 10, 1)), ((4, 4, 256), 8, (17, 2, 1)), ((8, 8, 64), 8, (5, 1, 2)),
         ((4, 4, 8192), 0.25, (12, 1, 1)), ((4, 8, 128), 8, (9, 1, 2)), ((16, 16, 16), 8, (3, 3, 3))]
    for bs, rate, nb in long_items:
        for mname in (['read_subvolume'] if tier == 'quick' else ['read_subvolume', 'read_crossline', 'read_zslice', 'read_inline']):
            if mode == 'in':
                items.append(mk_item(mname, bs, rate, nb, mode, tier))
    # trace-based methods: small crossline block so that n_xl can be enumerated
    tr_layouts = [l for l in lay3 if small_dims_ok(l[0])]
    if tier == 'quick':
        tr_layouts = [((4, 4, 256), 8), ((8, 8, 64), 8), ((4, 8, 128), 8), ((4, 4, 8192), 0.25)]
    for (bs, rate) in tr_layouts:
        nb = (2, 2, 2)
        for mname in ['get_trace', 'get_trace_window']:
            items.append(mk_item(mname, bs, rate, nb, mode, tier, dict(dimcap=2 if tier == 'quick' else 4)))
    dg_layouts = [((4, 4, 256), 8)] if tier == 'quick' else [((4, 4, 256), 8), ((8, 8, 64), 8), ((4, 8, 128), 8), ((4, 4, 1024), 2)]
    # diagonals: square, tall (n_il > n_xl) and wide (n_xl > n_il) cubes, below and above one block per axis
    dg_nbs = [(2, 2, 1), (2, 1, 1), (1, 2, 1)] if tier == 'quick' else [(1, 1, 1), (2, 2, 1), (2, 1, 1), (1, 2, 1), (3, 1, 1), (1, 3, 1)]
    for (bs, rate) in dg_layouts:
        for nb in dg_nbs:
            for mname in [n for n in readers.METHODS if 'diagonal' in n]:
                if tier == 'quick' and (mname.endswith('_crop') or (nb != (2, 2, 1) and not mname.endswith('_crop_win'))):
                    continue      # quick: all variants on the square cube, the fully cropped variant on tall / wide cubes
                cap = (1 if mode == 'in' else 2) if tier == 'quick' else 4
                items.append(mk_item(mname, bs, rate, nb, mode, tier, dict(dimcap=cap)))
    for (bs, rate) in ([((4, 4, 256), 8), ((8, 8, 64), 8)] if tier != 'quick' else [((4, 4, 256), 8)]):
        for step in ((1, 1), (2, 3), (-1, 1)) if tier != 'quick' else ((2, 3),):
            for mname in ['read_inline_number', 'read_crossline_number']:
                items.append(mk_item(mname, bs, rate, (2, 2, 1), mode, tier, dict(il_step=step[0], xl_step=step[1],
                                                                                     dimcap=2 if tier == 'quick' else 4)))
    # header accessors on files with stored arrays (both footer-stride conventions)
    hdr_names = ['gen_trace_header', 'gen_trace_header_all', 'get_tracefield_values_0', 'get_tracefield_values_1']
    for (bs, rate) in ([((4, 4, 256), 8)] if tier == 'quick' else [((4, 4, 256), 8), ((8, 8, 64), 8), ((64, 64, 4), 2)]):
        for ver in (spec.encode_version(0, 2, 5, True), spec.encode_version(0, 1, 9, True)):
            for stored in ([(73, 189, 193)] if tier == 'quick' else [(73, 189, 193), (1, 193), (5, 9, 189, 193)]):
                for mname in hdr_names:
                    if mode == 'out' and mname.startswith('get_tracefield'):
                        continue
                    items.append(mk_item(mname, bs, rate, (2, 2, 1), mode, tier, dict(version=ver, stored=stored)))
    for (bs, rate) in ([((1, 16, 256), 8)] if tier == 'quick' else [((1, 16, 256), 8), ((1, 4, 1024), 8)]):
        for mname in hdr_names:
            if mode == 'out' and mname.startswith('get_tracefield'):
                continue
            items.append(mk_item(mname + '_2d', bs, rate, (2, 2), mode, tier, dict(stored=(1, 115, 189))))
    # irregular 3D files (population mask from the stored inline-number array): ordinals of traces and headers
    for nh in ((1, 2) if tier == 'quick' else (1, 2, 3)):
        for mname in ['get_trace_irregular', 'gen_trace_header_irregular']:
            items.append(mk_item(mname, (4, 4, 256), 8, (2, 1, 1), mode, tier, dict(holes=nh, stored=(73, 189, 193), dimcap=1)))
    for (bs, rate) in lay2:
        for nb in ([(2, 2)] if tier == 'quick' else [(1, 1), (2, 2), (3, 2), (2, 3)]):
            if nb[1] * bs[2] > 2 ** 17:
                continue
            names = ['read_subplane', 'get_trace_2d']
            if mode == 'out' and bs == (1, 16, 256):
                names += [n for n in readers.METHODS_2D if n.startswith('2d_refuses')]
            for mname in names:
                items.append(mk_item(mname, bs, rate, nb, mode, tier))
    return items


def mk_item(mname, bs, rate, nb, mode, tier, opts=None):
    opts = dict(opts or {})
    opts.setdefault('version', spec.encode_version(0, 2, 5, True))
    opts.setdefault('axes', (1, 1) if 'number' not in mname else 'sym')
    desc = '%s|bs=%s|rate=%s|nb=%s|%s' % (mname, 'x'.join(map(str, bs)), rate, 'x'.join(map(str, nb)), mode)
    for k in ('il_step', 'xl_step'):
        if k in opts:
            desc += '|%s=%s' % (k, opts[k])
    if 'stored' in opts:
        desc += '|stored=%s|version=%s' % ('+'.join(map(str, opts['stored'])), opts['version'])
    if 'holes' in opts:
        desc += '|holes=%d' % opts['holes']
    it = Item(desc, lambda: readers.item_fn(mname, bs, rate, nb, mode, opts), timeout_s=150 if tier == 'quick' else 400,
              solver_ms=10000 if tier == 'quick' else 60000)
    it.meta = dict(method=mname, bs=list(bs), rate=rate, nb=list(nb), mode=mode, opts={k: v for k, v in opts.items() if k != 'after_call'})
    return it


def replay_candidate(it, c):
    meta = it.meta
    req = dict(kind='reader', method=meta['method'], bs=meta['bs'], rate=meta['rate'], model=c['model'],
               version=meta['opts'].get('version'), stored=list(meta['opts'].get('stored', ())), holes=meta['opts'].get('holes'), il_step=meta['opts'].get('il_step', 1), xl_step=meta['opts'].get('xl_step', 1))
    ax = meta['opts'].get('axes')
    if isinstance(ax, (tuple, list)):
        req['il0'], req['xl0'] = ax
    return replay(req)


def main(prop, mode, tier, only=None):
    t0 = time.time()
    items = items_for(mode, tier)
    if only:
        items = [i for i in items if only in i.desc]
    results = run_items(items)
    bounds = dict(blocks_per_axis='quick: 2 per axis; thorough: up to 3', layouts=len(set((tuple(i.meta['bs']), i.meta['rate']) for i in items)),
                  arguments='unbounded integers', dims='symbolic, 2 <= n <= nb*blockshape',
                  solver_timeout_ms=items[0].solver_ms if items else None)
    must = {}
    return finish(prop, tier, t0, results, items, ASSUMPTIONS, bounds, replay_fn=replay_candidate,
                  extra_cov=dict(must_reach=must))


if __name__ == '__main__':
    prop = sys.argv[1]
    tier = sys.argv[2] if len(sys.argv) > 2 else 'quick'
    only = sys.argv[3] if len(sys.argv) > 3 else None
    sys.exit(main(prop, 'in' if prop == 'C02' else 'out', tier, only))
