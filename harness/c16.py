"""C16 writer pipeline under all schedules: bounded model checking with z3.

1. EXTRACTION (from the real code, every run): NumpyConverter.run / SegyConverter.run (3D and 2D) are executed once per
   n (number of plane sets) under recording Thread / Queue / file stubs; the per-thread operation sequences
   (start, put q, get q, task_done q, join q, write, flush, return) ARE the thread programs.  Worker loops are recognised
   by periodicity (prefix + body^n + pending get); an operation outside the vocabulary -> exit 3.
2. ENCODING: a z3 transition system over (pc per thread, FIFO length / unfinished count per queue, items in flight,
   file log), ONE SYMBOLIC SCHEDULER CHOICE PER STEP, unrolled to the total operation count; queue.Queue semantics from
   the documentation (put blocks when full, get blocks when empty, join blocks until every put has a task_done).
3. ASSERTIONS: no reachable state before the call returns in which no thread can move; when run_conversion_loop
   returns the file log is header, block 1..n in order, each exactly once; once it has returned no thread can move (so
   nothing is written afterwards).  sat = a schedule, which is replayed on the real functions under a scripted scheduler.
"""
import sys
import time
import json

from .common import *
from . import writers
from .runner import Item, run_items, finish, EXIT_HARNESS
from .replayer import replay
from shims import lazyarr

ASSUMPTIONS = [
    "thread programs are extracted from the real run_conversion_loop / compressor / writer / producers by executing them once per n under recording stubs (data-independent control flow: the sequence of queue and file operations does not depend on sample values)",
    "queue.Queue contract: put blocks while full (maxsize), get blocks while empty, task_done decrements the unfinished count, join blocks until it is 0; FIFO; each operation atomic",
    "granularity: queue operations, thread start and file writes (GIL / OS scheduling below that granularity is outside)",
    "data: an array handed to a queue must not be written by the calling thread while it is queued or held by its consumer before the consumer's next put / task_done (write-after-publish race; identities of the arrays and the caller's writes into them are recorded during extraction); other sharing of mutable state is outside",
    "bounds: 1..3 plane sets, queue capacities 1, 2 and 16, routes NumPy, SEG-Y 3D and SEG-Y 2D",
]
VOCAB = {'start', 'put', 'get', 'get_to', 'task_done', 'join', 'write', 'flush', 'ret', 'mut'}


def extract(route, n, cap):
    """Run the real conversion once with n plane sets and queue capacity cap; return (main, workers) programs."""
    E = Engine(concrete={})
    import symx.core as core
    core.ENG = E
    mm, fs = writers.setup_path('0.2.5')
    C = mm['conversion']
    CU = mm['conversion_utils']
    lazyarr.ALWAYS_LAZY[0] = True
    real_loop = CU.run_conversion_loop
    calls = {}

    def loop_with_cap(*a, **k):
        k['queue_size'] = cap
        calls['n'] = calls.get('n', 0) + 1
        r = real_loop(*a, **k)
        shenv.oplog('ret')
        return r
    C.run_conversion_loop = loop_with_cap
    # arrays handed to a queue by the calling thread, and writes into them afterwards ('mut' operations of the caller)
    pub = dict(count=0, ids={})
    shenv.ctx().published = pub

    def on_mutation(base):
        e = pub['ids'].get(id(base))
        if e is not None and e[1] is base and shenv.ctx().baton.current is None:
            log_ = shenv.ctx().oplog.setdefault(None, [])
            if not log_ or log_[-1] != ('mut', e[0]):
                log_.append(('mut', e[0]))
    lazyarr.MUT_HOOK[0] = on_mutation
    try:
        with Quiet():
            if route == 'numpy':
                cube = writers.src_cube((4 * n - 1, 5, 7))
                C.NumpyConverter(cube).run('out.sgz', bits_per_voxel=8, blockshape=(4, 4, 256))
            else:
                from shims import segy as shsegy
                if route == 'segy2d':
                    model = shsegy.SegyModel('2d', 7, tracecount=16 * n - 3)
                    bs = (1, 16, 256)
                else:
                    model = shsegy.SegyModel('regular', 7, n_il=4 * n - 1, n_xl=5)
                    bs = (4, 4, 256)
                shsegy.install_segy(mm, fs, model, mm['seismicfile'].Filetype)
                C.SegyConverter(model.name).run('out.sgz', bits_per_voxel=8, blockshape=bs)
    finally:
        C.run_conversion_loop = real_loop
        lazyarr.MUT_HOOK[0] = None
    log = shenv.ctx().oplog
    store = fs.stores['out.sgz']
    # a get() with a timeout may also give up on an empty queue: record what the worker does then (its 'timeout path')
    alts = {}
    threads = list(shenv.ctx().baton.threads)
    shenv.ctx().baton.shutdown()
    for k, th in enumerate(threads):
        if any(o == 'get_to' for o, a in log.get(k, [])):
            shenv.ctx().force_empty = True
            saved = shenv.ctx().oplog
            shenv.ctx().oplog = {}
            try:
                with Quiet():
                    th.target(*th.args, **th.kwargs)
                ops = list(shenv.ctx().oplog.get(None, []))
            except Exception as e:
                ops = list(shenv.ctx().oplog.get(None, [])) + [('raise', type(e).__name__)]
            finally:
                shenv.ctx().oplog = saved
                shenv.ctx().force_empty = False
            # the timeout path = operations after the get that gave up
            idx = [i for i, (o, a) in enumerate(ops) if o == 'get_to']
            alts[k] = [x for x in ops[idx[0] + 1:] if x[0] in VOCAB] if idx else []
    main = list(log.get(None, []))
    if ('ret', None) in main:
        main = main[:main.index(('ret', None)) + 1]
    workers = [list(log.get(t, [])) for t in range(len(shenv.ctx().baton.threads))]
    for prog in [main] + workers:
        for op, arg in prog:
            if op not in VOCAB:
                raise RuntimeError("operation %r outside the vocabulary" % op)
    # which write is the header: the first write of the writer thread has length 8192 at position 0
    return main, workers, alts


def loop_program(trace, n):
    """prefix + body^n + [pending get] -> (prefix, body)."""
    if not trace or trace[-1][0] not in ('get', 'get_to'):
        raise RuntimeError("worker trace does not end in a pending get: %s" % trace[-3:])
    core_ = trace[:-1]
    for plen in range(0, 4):
        rest = core_[plen:]
        if n and len(rest) % n == 0:
            L = len(rest) // n
            if L > 0:
                body = rest[:L]
                # writes carry a running index: compare operation kinds and queue ids only
                norm = lambda ops: [(o, a if o != 'write' else None) for o, a in ops]
                if all(norm(rest[i * L:(i + 1) * L]) == norm(body) for i in range(n)) and body[0][0] in ('get', 'get_to'):
                    return core_[:plen], body
    raise RuntimeError("worker trace is not prefix + body^%d: %s" % (n, trace))


def bmc(main, workers, n, cap, timeout_ms=120000, alts=None):
    """-> (result, schedule or None, steps). Violation query: sat = bad schedule."""
    progs = [main]
    loops = []
    for w in workers:
        pre, body = loop_program(w, n)
        loops.append((pre, body))
    alts = alts or {}
    T = len(main) + sum(len(p) + n * len(b) for p, b in loops) + sum(len(a_) + 1 for a_ in alts.values()) + 2
    nq = 1 + max([a for prog in [main] + [p + b for p, b in loops] for (o, a) in prog if o in ('put', 'get', 'task_done', 'join')] + [0])
    nt = len(loops)
    s = z3.Solver()
    s.set('timeout', timeout_ms)

    def st(t):
        d = dict(pcm=z3.Int('pcm_%d' % t), nw=z3.Int('nw_%d' % t), hdr=z3.Bool('hdr_%d' % t), ok=z3.Bool('ok_%d' % t), pm=z3.Int('pm_%d' % t))
        for k in range(nt):
            d['pc%d' % k] = z3.Int('pc%d_%d' % (k, t))
            d['it%d' % k] = z3.Int('it%d_%d' % (k, t))        # iteration count of the loop (identifies the item held)
            d['st%d' % k] = z3.Bool('st%d_%d' % (k, t))
            d['held%d' % k] = z3.Int('held%d_%d' % (k, t))    # identity (source block number) of the item the worker holds
        for q in range(nq):
            d['len%d' % q] = z3.Int('len%d_%d' % (q, t))
            d['unf%d' % q] = z3.Int('unf%d_%d' % (q, t))
            d['hd%d' % q] = z3.Int('hd%d_%d' % (q, t))      # sequence number of the next item to get
            d['tl%d' % q] = z3.Int('tl%d_%d' % (q, t))      # sequence number of the next item to put
            d['qa%d' % q] = z3.Array('qa%d_%d' % (q, t), z3.IntSort(), z3.IntSort())   # slot -> identity of the item stored
        return d
    # which threads put to / get from each queue: with one producer and one consumer per FIFO queue the k-th get returns
    # the k-th put, so identities are sequence numbers and no array is needed; otherwise slots carry identities
    users = {}
    for tid, prog in enumerate([main] + [p_ + b_ for p_, b_ in loops]):
        for (o, a_) in prog:
            if o in ('put', 'get'):
                users.setdefault((o, a_), set()).add(tid)
    need_arrays = any(len(v) > 1 for v in users.values())
    S = [st(t) for t in range(T + 1)]
    keys = [k for k in S[0].keys() if need_arrays or not k.startswith('qa')]
    i0 = S[0]
    s.add(i0['pcm'] == 0, i0['nw'] == 0, z3.Not(i0['hdr']), i0['ok'], i0['pm'] == 0)
    for k in range(nt):
        s.add(i0['pc%d' % k] == 0, i0['it%d' % k] == 0, z3.Not(i0['st%d' % k]), i0['held%d' % k] == -1)
    for q in range(nq):
        s.add(i0['len%d' % q] == 0, i0['unf%d' % q] == 0, i0['hd%d' % q] == 0, i0['tl%d' % q] == 0)

    def frame(a, b, changed):
        return z3.And([b[k] == a[k] for k in keys if k not in changed])

    def queue_eff(a, b, op, q, extra_changed, extra, item=None, held=None):
        """(enabled, effect) of a queue op by any thread. item: identity put; held: state key receiving the identity got."""
        if op == 'put':
            return a['len%d' % q] < cap, z3.And(b['len%d' % q] == a['len%d' % q] + 1, b['unf%d' % q] == a['unf%d' % q] + 1, b['tl%d' % q] == a['tl%d' % q] + 1,
                                                   (b['qa%d' % q] == z3.Store(a['qa%d' % q], a['tl%d' % q], item)) if need_arrays else z3.BoolVal(True),
                                                   extra, frame(a, b, {'len%d' % q, 'unf%d' % q, 'tl%d' % q, 'qa%d' % q} | extra_changed))
        if op == 'get':
            return a['len%d' % q] > 0, z3.And(b['len%d' % q] == a['len%d' % q] - 1, b['hd%d' % q] == a['hd%d' % q] + 1,
                                                 (b[held] == (z3.Select(a['qa%d' % q], a['hd%d' % q]) if need_arrays else a['hd%d' % q])) if held else z3.BoolVal(True), extra,
                                                 frame(a, b, {'len%d' % q, 'hd%d' % q} | ({held} if held else set()) | extra_changed))
        if op == 'task_done':
            return z3.BoolVal(True), z3.And(b['unf%d' % q] == a['unf%d' % q] - 1, extra, frame(a, b, {'unf%d' % q} | extra_changed))
        if op == 'join':
            return a['unf%d' % q] == 0, z3.And(extra, frame(a, b, set(extra_changed)))
        raise RuntimeError(op)

    def main_cases(a, b):
        out = []
        for pc, (op, arg) in enumerate(main):
            g = a['pcm'] == pc
            adv = b['pcm'] == pc + 1
            if op == 'start':
                out.append((g, z3.BoolVal(True), z3.And(adv, b['st%d' % arg], frame(a, b, {'pcm', 'st%d' % arg}))))
            elif op in ('put', 'join', 'get', 'task_done'):
                if op == 'put':
                    en, eff = queue_eff(a, b, op, arg, {'pcm', 'pm'}, z3.And(adv, b['pm'] == a['pm'] + 1), item=a['pm'])
                else:
                    en, eff = queue_eff(a, b, op, arg, {'pcm'}, adv)
                out.append((g, en, eff))
            elif op == 'mut':
                out.append((g, z3.BoolVal(True), z3.And(adv, frame(a, b, {'pcm'}))))
            else:   # flush / ret / write by the caller (none expected before ret)
                if op == 'write':
                    out.append((g, z3.BoolVal(True), z3.And(adv, b['ok'] == z3.BoolVal(False), frame(a, b, {'pcm', 'ok'}))))
                else:
                    out.append((g, z3.BoolVal(True), z3.And(adv, frame(a, b, {'pcm'}))))
        return out

    def worker_cases(k, a, b):
        pre, body = loops[k]
        alt = (alts or {}).get(k, [])
        out = []
        P, L = len(pre), len(body)
        pcv, itv = 'pc%d' % k, 'it%d' % k
        for pc, (op, arg) in enumerate(pre + body + alt):
            g = z3.And(a['st%d' % k], a[pcv] == pc)
            last = pc == P + L - 1
            nxt = P if last else pc + 1      # (the last operation of the timeout path leads to pc = end: the thread has returned)
            if op == 'get_to':
                # giving up on an empty queue: untimed model, the timeout may fire whenever the queue is empty
                out.append((g, a['len%d' % arg] == 0, z3.And(b[pcv] == P + L, b[itv] == a[itv], frame(a, b, {pcv, itv}))))
                op = 'get'
            adv = z3.And(b[pcv] == nxt, b[itv] == (a[itv] + 1 if last else a[itv]))
            ch = {pcv, itv}
            if op in ('put', 'get', 'task_done', 'join'):
                # FIFO with one producer and one consumer per queue: the k-th get returns the k-th put; a worker that
                # forwards (get q_in ... put q_out) forwards item number it%d
                en, eff = queue_eff(a, b, op, arg, ch, adv, item=a['held%d' % k], held='held%d' % k)
                out.append((g, en, eff))
            elif op == 'write':
                if pc < P:
                    out.append((g, z3.BoolVal(True), z3.And(adv, b['hdr'], b['ok'] == z3.And(a['ok'], a['nw'] == 0, z3.Not(a['hdr'])), frame(a, b, ch | {'hdr', 'ok'}))))
                else:
                    # the item written is the one this worker holds; in order iff its identity equals the number written so far
                    out.append((g, z3.BoolVal(True), z3.And(adv, b['nw'] == a['nw'] + 1, b['ok'] == z3.And(a['ok'], a['hdr'], a['held%d' % k] == a['nw']),
                                                           frame(a, b, ch | {'nw', 'ok'}))))
            else:
                out.append((g, z3.BoolVal(True), z3.And(adv, frame(a, b, ch))))
        return out

    done = lambda a: a['pcm'] == len(main)
    main_q = [arg for (op, arg) in main if op == 'put']
    q_in = main_q[0] if main_q else 0

    def in_use(j, a):
        conds = [a['hd%d' % q_in] <= j]          # still in the queue (it was put before the caller reached this operation)
        for k, (pre, body) in enumerate(loops):
            if body and body[0][0] in ('get', 'get_to') and body[0][1] == q_in:
                puts = [i for i, (o, _) in enumerate(body) if o in ('put', 'task_done')]
                upto = len(pre) + (puts[0] if puts else len(body) - 1)
                conds.append(z3.And(a['held%d' % k] == j, a['pc%d' % k] > len(pre), a['pc%d' % k] <= upto))
        return z3.Or(conds)
    bad = []
    choices = []
    for t in range(T):
        a, b = S[t], S[t + 1]
        ch = z3.Int('ch_%d' % t)
        choices.append(ch)
        allc = [(0, c) for c in main_cases(a, b)]
        for k in range(nt):
            allc += [(k + 1, c) for c in worker_cases(k, a, b)]
        any_en = z3.Or([z3.And(g, en) for _, (g, en, eff) in allc])
        worker_en = z3.Or([z3.And(g, en) for tid, (g, en, eff) in allc if tid != 0])
        step = z3.Or([z3.And(ch == tid, g, en, eff) for tid, (g, en, eff) in allc])
        stutter = z3.And(z3.Not(any_en), ch == -1, frame(a, b, set()))
        s.add(z3.Or(step, stutter))
        for pc, (op, arg) in enumerate(main):
            if op == 'mut':
                # the caller writes into the array it handed over as put number `arg` while that array is still queued or held
                # by the consumer that has not yet produced its output from it: the bytes compressed depend on the schedule
                bad.append(z3.And(ch == 0, a['pcm'] == pc, in_use(arg, a)))
        bad.append(z3.And(z3.Not(done(a)), z3.Not(any_en)))                       # stuck before the call returns
        bad.append(z3.And(done(a), worker_en))                                     # something can still happen after it returned
    for t in range(T + 1):
        a = S[t]
        bad.append(z3.And(done(a), z3.Or(a['nw'] != n, z3.Not(a['ok']), z3.Not(a['hdr']))))
    s.add(z3.Or(bad))
    t0 = time.time()
    r = s.check()
    dt = time.time() - t0
    sched = None
    if r == z3.sat:
        m = s.model()
        sched = []
        for t in range(T):
            v = m.eval(choices[t], model_completion=True).as_long()
            if v == 0:
                pcm = m.eval(S[t]['pcm'], model_completion=True).as_long()
                if 0 <= pcm < len(main) and main[pcm][0] == 'mut':
                    continue      # not an operation the scripted scheduler of the replay sees
            if v >= 0:
                sched.append(v)
    return str(r), sched, T, dt


def run_bmc_item(route, n, cap):
    t0 = time.time()
    out = dict(desc='bmc|%s|n=%d|cap=%d' % (route, n, cap), error=None, paths=1, aborted_paths=0, queries=1, unknown=0, nonlinear=0, memo_hits=0,
               obligations=1, discharged=0, cands=[], not_encoded=[], undecided=[], budget_hit=False, reach={}, samples=[], functions=[])
    try:
        from .runner import trace_functions_guard
        holder = {}
        funcs = trace_functions_guard(lambda: holder.update(r=extract(route, n, cap)))
        main, workers, alts = holder['r']
        out['functions'] = sorted(funcs)
        res, sched, T, dt = bmc(main, workers, n, cap, alts=alts)
        out['solver_s'] = round(dt, 3)
        progs = dict(main=main, workers=[dict(zip(('prefix', 'body'), loop_program(w, n))) for w in workers])
        out['samples'] = [dict(obligation='all schedules of %s, n=%d, capacity %d: terminates; file = header, blocks in order; nothing after return' % (route, n, cap),
                               term='BMC over %d steps: %s' % (T, res), path=0, programs=json.loads(json.dumps(progs)))]
        out['reach'] = {'bmc:%s' % route: 1}
        if res == 'unsat':
            out['discharged'] = 1
        elif res == 'sat':
            out['cands'] = [dict(msg='a schedule of the writer pipeline breaks termination / file order / quiescence at return / writes into an array another thread may still be reading', model=dict(schedule=sched),
                                 info=dict(route=route, n=n, cap=cap))]
        else:
            out['unknown'] = 1
            out['undecided'] = ['BMC %s n=%d cap=%d: %s' % (route, n, cap, res)]
    except BaseException as e:
        import traceback
        out['error'] = '%s: %s\n%s' % (type(e).__name__, e, traceback.format_exc()[-1200:])
    out['wall_s'] = round(time.time() - t0, 2)
    return out


class BmcItem(Item):
    def __init__(self, route, n, cap):
        Item.__init__(self, 'bmc|%s|n=%d|cap=%d' % (route, n, cap), None, timeout_s=600)
        self.route, self.n, self.cap = route, n, cap
        self.meta = dict(route=route, n=n, cap=cap)


def replay_candidate(it, c):
    return replay(dict(kind='schedule', route=it.meta['route'], n=it.meta['n'], cap=it.meta['cap'], schedule=c['model']['schedule'],
                       handlers=['replay.schedule']), timeout=300)


def main(prop, tier, only=None):
    t0 = time.time()
    quick = tier == 'quick'
    combos = []
    for route in ('numpy', 'segy3d', 'segy2d'):
        for n in (1, 2, 3):
            for cap in (1, 2, 16):
                if quick and route != 'numpy' and (cap == 2 or n == 3 and cap == 16):
                    continue
                combos.append((route, n, cap))
    items = [BmcItem(*c) for c in combos]
    if only:
        items = [i for i in items if only in i.desc]
    import multiprocessing as mp
    ctx = mp.get_context('fork')
    with ctx.Pool(min(16, len(items))) as pool:
        results = pool.starmap(run_bmc_item, [(i.route, i.n, i.cap) for i in items])
    bounds = dict(plane_sets=[1, 2, 3], capacities=[1, 2, 16], routes=['numpy', 'segy3d', 'segy2d'], granularity='queue operations, thread start, file writes')
    return finish(prop, tier, t0, results, items, ASSUMPTIONS, bounds, replay_fn=replay_candidate)


if __name__ == '__main__':
    sys.exit(main('C16', sys.argv[1] if len(sys.argv) > 1 else 'quick', sys.argv[2] if len(sys.argv) > 2 else None))
