"""C03 container conformance.

Part V (this file, leaf kernel in Int): the version codec and gates of seismic_zfp/version.py executed on symbolic
integers and symbolic version strings (SymStr) for every shape setuptools_scm can emit.
Part W (harness/writers.py): every writer's actual write sequence vs the spec's header / data / footer model.
"""
import sys
import time
from .common import *
from .runner import Item, run_items, finish
from .replayer import replay
from symx.core import implied, b_not, SymBool, mkbool, Infeasible
from symx.symstr import SymStr, Num, Tok
import z3

ASSUMPTIONS_V = [
    "version fields: major < 4, minor < 1024, patch < 1024 (the 23-bit encoding of the specification), both development flags",
    "setuptools_scm shapes: M.m.p | M.m.p.devN+gH | M.m.p.devN+gH.dDATE | M.m.p+dDATE | M.m.devN+gH[.dDATE] (no tag reachable) | M.m | M.m.prcK | M.m.p.postN | M.m.p.postN.devK+gH; numeric fields symbolic (unbounded N, K), hash / date opaque tokens",
    "order oracle: lexicographic on (major, minor, patch, released) with a development version just below its release",
]


def key_lt(a, b):
    """Lexicographic < on tuples of SymInt/int without forking."""
    res = False
    eq = True
    for x, y in zip(a, b):
        res = b_or(res, b_and(eq, x < y))
        eq = b_and(eq, x == y)
    return res


def fresh_version(E, tag):
    M = E.fresh(tag + 'major', 0, 3)
    m = E.fresh(tag + 'minor', 0, 1023)
    p = E.fresh(tag + 'patch', 0, 1023)
    dev = E.fresh(tag + 'dev', 0, 1)
    return M, m, p, dev


def build(V, M, m, p, dev):
    """The real constructor on a tuple; the development flag decides the tuple's length (forks)."""
    if dev == 1:
        return V((M, m, p, '.dev'))
    return V((M, m, p))


def item_roundtrip():
    mm = mods()
    V = mm['version'].SeismicZfpVersion

    def fn():
        E = eng()
        M, m, p, dev = fresh_version(E, '')
        v = build(V, M, m, p, dev)
        enc = v.encoding
        E.reached('encode')
        E.check(b_and(enc >= 0, enc < 2 ** 23), 'version: encoding fits the 23-bit field')
        E.check(enc == spec.encode_version(M, m, p, True) - dev, 'version: encoding is major*2^21 + minor*2^11 + patch*2 + released')
        w = V(enc)
        E.check(b_and(w.major == M, w.minor == m, w.patch == p), 'version: decode(encode(v)) restores major, minor, patch')
        ce = w.changes_exist
        ce = ce if isinstance(ce, bool) else bool(ce)
        E.check(ce == (implied(dev == 1)), 'version: decode(encode(v)) restores the development flag')
        E.check(w.encoding == enc, 'version: encode(decode(e)) == e')
        t = w.to_tuple()
        E.check(len(t) == (4 if implied(dev == 1) else 3), 'version: to_tuple length reflects the development flag')
    return fn


def item_decode_total():
    mm = mods()
    V = mm['version'].SeismicZfpVersion

    def fn():
        E = eng()
        e = E.fresh('encoding', 0, 2 ** 23 - 1)
        w = V(e)
        E.reached('decode')
        E.check(b_and(w.major >= 0, w.major < 4, w.minor >= 0, w.minor < 1024, w.patch >= 0, w.patch < 1024), 'version: decoded fields in range')
        E.check(w.encoding == e, 'version: every 23-bit value is the encoding of exactly the version it decodes to')
        v2 = V(w.to_tuple())
        E.check(v2.encoding == e, 'version: tuple round trip')
    return fn


def item_order():
    mm = mods()
    V = mm['version'].SeismicZfpVersion

    def fn():
        E = eng()
        a = fresh_version(E, 'a_')
        b = fresh_version(E, 'b_')
        va, vb = build(V, *a), build(V, *b)
        ka = (a[0], a[1], a[2], 1 - a[3])
        kb = (b[0], b[1], b[2], 1 - b[3])
        lt = key_lt(ka, kb)
        E.reached('order')
        E.check(mkbool(tobool_(lt) == tobool_(va.encoding < vb.encoding)), 'version: encoding preserves release order')
        gt = vb > va
        E.check(mkbool(tobool_(gt) == tobool_(lt)), 'version: a < b  <=>  b > a (operator)')
        eq = (va == vb)
        alleq = b_and(*[x == y for x, y in zip(ka, kb)])
        E.check(mkbool(tobool_(eq) == tobool_(alleq)), 'version: == is equality of (major, minor, patch, flag)')
    return fn


def tobool_(c):
    from symx.core import tobool
    return tobool(c) if not isinstance(c, bool) else z3.BoolVal(c)


def item_gates():
    mm = mods()
    V = mm['version'].SeismicZfpVersion

    def fn():
        E = eng()
        e = E.fresh('encoding', 0, 2 ** 23 - 1)
        w = V(e)
        key = (w.major, w.minor, w.patch, 0 if (w.changes_exist if isinstance(w.changes_exist, bool) else bool(w.changes_exist)) else 1)
        E.reached('gates')
        for name, g in (('0.2.1', (0, 2, 1, 1)), ('0.1.6', (0, 1, 6, 1))):
            gate = V(name)
            got = w > gate
            want = key_lt(g, key)
            E.check(mkbool(tobool_(got) == tobool_(want)), 'version: gate "> %s" holds exactly for later versions (incl. the next development version)' % name)
    return fn


SHAPES = {
    'tag': ['M', '.', 'm', '.', 'p'],
    'tag-v2': ['M', '.', 'm'],
    'distance': ['M', '.', 'm', '.', 'p', '.dev', 'N', '+g', 'H'],
    'distance-dirty': ['M', '.', 'm', '.', 'p', '.dev', 'N', '+g', 'H', '.d', 'D'],
    'dirty': ['M', '.', 'm', '.', 'p', '+d', 'D'],
    'notag': ['M', '.', 'm', '.dev', 'N', '+g', 'H'],
    'notag-dirty': ['M', '.', 'm', '.dev', 'N', '+g', 'H', '.d', 'D'],
    'rc': ['M', '.', 'm', '.', 'p', 'rc', 'K'],
    'rc-dot': ['M', '.', 'm', '.', 'p', '.rc', 'K'],
    'post': ['M', '.', 'm', '.', 'p', '.post', 'N'],
    'post-dev': ['M', '.', 'm', '.', 'p', '.post', 'N', '.dev', 'K', '+g', 'H'],
    'major-only-dev': ['M', '.dev', 'N', '+g', 'H'],
}


def item_strings(shape):
    mm = mods()
    V = mm['version'].SeismicZfpVersion

    def fn():
        E = eng()
        M = E.fresh('major', 0, 3)
        m = E.fresh('minor', 0, 1023)
        p = E.fresh('patch', 0, 1023)
        N = E.fresh('N', 0)
        K = E.fresh('K', 0)
        vals = dict(M=Num(M), m=Num(m), p=Num(p), N=Num(N), K=Num(K), H=Tok('hash', '0123456789abcdef'), D=Tok('date', '0123456789'))
        s = SymStr([vals.get(t, t) for t in SHAPES[shape]])
        toks = SHAPES[shape]
        release = [M]
        if 'm' in toks:
            release.append(m)
        if 'p' in toks:
            release.append(p)
        release = (release + [0, 0])[:3]
        has_suffix = any(t not in ('M', 'm', 'p', '.') for t in toks)
        try:
            v = V(s)
        except Exception as e:
            E.reached('parse:raised')
            E.check(False, 'version string %s: constructor raised %s' % (shape, type(e).__name__))
            return
        E.reached('parse')
        E.check(b_and(v.major == release[0], v.minor == release[1], v.patch == release[2]),
                'version string %s: release segment parsed as (major, minor, patch)' % shape)
        ce = v.changes_exist if isinstance(v.changes_exist, bool) else bool(v.changes_exist)
        E.check(ce == has_suffix, 'version string %s: development flag set iff the string has a pre/post/dev/local suffix' % shape)
        E.check(v.encoding == spec.encode_version(release[0], release[1], release[2], not has_suffix),
                'version string %s: recorded encoding is that of the parsed version' % shape)
    return fn


def items_for(tier):
    items = []
    for name, mk_ in (('version-roundtrip', item_roundtrip), ('version-decode-total', item_decode_total), ('version-order', item_order),
                      ('version-gates', item_gates)):
        it = Item(name, (lambda mk_=mk_: mk_()), timeout_s=300, solver_ms=60000)
        it.meta = dict(kind='version', what=name)
        items.append(it)
    for shape in SHAPES:
        it = Item('version-string|' + shape, (lambda shape=shape: item_strings(shape)), timeout_s=120, solver_ms=30000)
        it.meta = dict(kind='version-string', shape=shape)
        items.append(it)
    return items


def replay_candidate(it, c):
    return replay(dict(kind='version', what=it.meta.get('what'), shape=it.meta.get('shape'), model=c['model'], obligation=c['msg'],
                       shapes=SHAPES, handlers=['replay.version']))


def main(prop, tier, only=None):
    t0 = time.time()
    items = items_for(tier)
    try:
        from . import writers
        items += writers.items_for('C03', tier)
    except ImportError:
        writers = None
    if only:
        items = [i for i in items if only in i.desc]
    results = run_items(items)
    bounds = dict(version_fields='major<4, minor<1024, patch<1024, both flags: all 8.4 million versions symbolically (no enumeration)',
                  version_strings='%d setuptools_scm shapes, numeric fields symbolic' % len(SHAPES))
    assumptions = list(ASSUMPTIONS_V)
    rf = replay_candidate
    if writers is not None:
        bounds.update(writers.BOUNDS)
        assumptions += writers.ASSUMPTIONS

        def rf(it, c):
            if it.meta.get('kind', '').startswith('version'):
                return replay_candidate(it, c)
            return writers.replay_candidate(it, c)
    return finish(prop, tier, t0, results, items, assumptions, bounds, replay_fn=rf)


if __name__ == '__main__':
    sys.exit(main('C03', sys.argv[1] if len(sys.argv) > 1 else 'quick', sys.argv[2] if len(sys.argv) > 2 else None))
