"""C15 history independence: caches, preload and shared handles never change a result.

A history = 1-2 earlier operations (symbolic method arguments, any reader object of the configuration) followed by the
observed operation, all on ONE symbolic conforming file.  The observed result must satisfy the absolute C02 oracle
(provenance = spec cell of the denoted voxel / footer int32), which is what a fresh reader returns, so
"same as on a fresh reader" is decided without running the fresh reader.  The real lru_cache contract is modelled by
shims.env.sym_lru_cache (class-level sharing, maxsize, eviction, cache_clear on close); the real
_read_containing_chunk_cached / read_variant_headers / mask state run as written.

Configurations: 'same' (one reader), 'two' (second independently opened reader, optionally closed in between),
'emu' (SegyioEmulator: seven reader objects on one handle), preload, chunk_cache_size in {1, 2, default}.
"""
import sys
import time
from .common import *
from . import readers
from .runner import Item, run_items, finish
from .replayer import replay
from symx.core import Infeasible

ASSUMPTIONS = [
    "file: any SGZ file conforming to docs/file-specification.md (symbolic dimensions within the block bound), 3 stored header arrays",
    "functools.lru_cache contract: hit iff the argument tuple equals a stored one (self is part of the key; class-level cache shared by instances), LRU eviction beyond maxsize, cache_clear() empties it",
    "history length: 2 operations (quick), up to 3 (thorough and the selected quick triples); earlier operations take arbitrary in-range arguments (thorough: arbitrary arguments, exceptions swallowed)",
    "numpy / zfpy / file stubs as in C02; a file handle has ONE position shared by every reader built on it",
]

ROLE = {  # which emulator accessor executes a method (documented interface -> reader object)
    'read_inline': 'iline', 'read_crossline': 'xline', 'read_zslice': 'depth_slice', 'read_subvolume': 'subvolume',
    'get_trace': 'trace', 'get_trace_window': 'trace', 'gen_trace_header': 'header', 'gen_trace_header_all': 'header', 'gen_trace_header_irregular': 'header', 'get_trace_irregular': 'trace',
    'get_tracefield_values_0': 'self', 'get_tracefield_values_1': 'self', 'read_inline_number': 'iline',
    'read_crossline_number': 'xline', 'read_volume': 'self',
}


def history_fn(hist, bs, rate, nb, opts):
    """hist: list of method names, the last one is observed."""
    mm = mods()
    R = mm['read']
    from shims import lazyarr
    is2d = bs[0] == 1
    table = readers.METHODS_2D if is2d else readers.METHODS
    ms = [table[n] for n in hist]
    stored = opts.get('stored', (73, 189, 193))
    config = opts.get('config', 'same')

    def fn():
        E = eng()
        shenv.reset_ctx()
        lazyarr.ALWAYS_LAZY[0] = True
        ver = opts.get('version', spec.encode_version(0, 2, 5, True))
        fd = opts.get('fixdims')
        if is2d:
            T = sym_sgz_2d(E, bs, rate, nb, version=ver, stored=stored,
                           dims=None if fd is None else (nb[0] * bs[1] - fd, nb[1] * bs[2] - fd))
        else:
            T = sym_sgz_3d(E, bs, rate, nb, version=ver, axes=(1, 1), stored=stored,
                           dims=tuple(opts['dims']) if opts.get('dims') else None if fd is None else tuple(nb[k] * bs[k] - fd for k in range(3)))
            cap = opts.get('dimcap')
            need = set()
            for m in ms:
                need |= m.needs
            if cap is not None:
                if 'nil' in need:
                    E.assume(T.dims[0] <= max(2, (nb[0] - 1) * bs[0]) + cap)
                if 'nxl' in need:
                    E.assume(T.dims[1] <= max(2, (nb[1] - 1) * bs[1]) + cap)
            if 'nil' in need:
                T.dims = (int(T.dims[0]), T.dims[1], T.dims[2])
            if 'nxl' in need:
                T.dims = (T.dims[0], int(T.dims[1]), T.dims[2])
            if opts.get('holes'):
                # irregular file (population mask from the stored inline-number array): the header-array caches exist in two
                # forms (with / without the entries of absent traces), which is state a history can get wrong
                T.dims = (int(T.dims[0]), int(T.dims[1]), T.dims[2])
                readers.apply_holes(E, T, opts['holes'])
        st = make_store(T)
        kw = dict(chunk_cache_size=opts.get('chunk_cache_size'), preload=bool(opts.get('preload')))
        with Quiet():
            if config == 'emu':
                Emu = mm['segyio_emulator'].SegyioEmulator
                emu = Emu(shenv.ShimFile(st), chunk_cache_size=opts.get('chunk_cache_size'))
                objs = dict(self=emu, trace=emu.trace, header=emu.header)
                if not is2d:
                    objs.update(iline=emu.iline, xline=emu.xline, depth_slice=emu.depth_slice, subvolume=emu.subvolume)

                def reader_for(k, m):
                    return objs.get(ROLE.get(m.name.replace('_2d', ''), 'self'), emu)
            elif config == 'two-files':
                # another file with the very same layout and dimensions is read first; the observed reader is on OUR file
                import copy
                T2 = copy.copy(T)
                T2.fid = 'other'
                st2 = make_store(T2, 'other.sgz')
                ra = R.SgzReader(shenv.ShimFile(st2), **kw)
                rb = R.SgzReader(shenv.ShimFile(st), **kw)

                def reader_for(k, m):
                    return rb if k == len(ms) - 1 else ra
            elif config in ('two', 'two-close'):
                ra = R.SgzReader(shenv.ShimFile(st), **kw)
                rb = R.SgzReader(shenv.ShimFile(st), **kw)

                def reader_for(k, m):
                    return rb if k == len(ms) - 1 else ra
            else:
                r0 = R.SgzReader(shenv.ShimFile(st), **kw)

                def reader_for(k, m):
                    return r0
        for obj in set(id(reader_for(k, m)) for k, m in enumerate(ms)):
            pass
        for k, m in enumerate(ms):
            reader_for(k, m)._verif_stored = tuple(stored)
        # earlier operations
        kept = None
        for k, m in enumerate(ms[:-1]):
            a = [E.fresh('h%d_%s' % (k, n)) for n in m.argn]
            if not opts.get('wild'):
                E.assume(m.inr(T, a))
            try:
                with Quiet():
                    r_k = m.call(reader_for(k, m), a)
                if k == 0 and m.kind == 'voxels' and config != 'two-files' and not opts.get('wild'):
                    kept = (m, a, r_k)
            except Exception:
                if not opts.get('wild'):
                    raise Infeasible()      # an in-range call that raises is C02's finding, not a history
        if config == 'two-close':
            with Quiet():
                ra.close()
        readers.run_method(E, ms[-1], T, reader_for(len(ms) - 1, ms[-1]), 'in')
        if kept is not None and opts.get('check_kept', True):
            # the array returned by the FIRST operation, still held by the caller, must not have changed
            m0, a0, r0 = kept
            readers.verify_result(E, m0, T, a0, r0, '%s[kept after later reads]' % m0.name, qprefix='k')
    return fn


def mk_item(hist, bs, rate, nb, tier, opts=None):
    opts = dict(opts or {})
    if any(h in ('read_subvolume', 'read_subplane') for h in hist) and 'fixdims' not in opts:
        opts['fixdims'] = 1 if tier == 'quick' else 2     # histories with 6-argument boxes: concrete cube, symbolic arguments
    desc = '%s|bs=%s|rate=%s|nb=%s' % ('>'.join(hist), 'x'.join(map(str, bs)), rate, 'x'.join(map(str, nb)))
    for k in ('config', 'preload', 'chunk_cache_size', 'wild', 'fixdims', 'holes', 'dims'):
        if k in opts:
            desc += '|%s=%s' % (k, opts[k])
    it = Item(desc, lambda: history_fn(hist, bs, rate, nb, opts), timeout_s=170 if tier == 'quick' else 420,
              solver_ms=10000 if tier == 'quick' else 60000)
    it.meta = dict(hist=list(hist), bs=list(bs), rate=rate, nb=list(nb), opts=opts)
    return it


def items_for(tier):
    items = []
    quick = tier == 'quick'
    data = ['read_inline', 'read_crossline', 'read_zslice', 'read_subvolume', 'get_trace', 'get_trace_window']
    hdr = ['gen_trace_header', 'get_tracefield_values_1', 'gen_trace_header_all']
    allm = data + hdr
    # all ordered pairs on the default layout, one reader
    for a in allm:
        for b in allm:
            items.append(mk_item([a, b], (4, 4, 256), 8, (2, 2, 2), tier, dict(dimcap=1)))
    # rectangular chunk grids for the trace cache, all cache sizes
    for ccs in (1, 2, None):
        for nb in ((2, 3, 1), (3, 2, 1)):
            for pair in (['get_trace', 'get_trace'], ['get_trace_window', 'get_trace'], ['read_subvolume', 'get_trace']):
                items.append(mk_item(pair, (4, 4, 256), 8, nb, tier, dict(dimcap=1, chunk_cache_size=ccs)))
    # other layouts: same-method pairs and the pairs that share a loader cache
    others = [((8, 8, 64), 8, (2, 2, 2)), ((64, 64, 4), 2, (2, 2, 1))] if quick else \
        [((8, 8, 64), 8, (2, 2, 2)), ((64, 64, 4), 2, (2, 2, 1)), ((4, 8, 128), 8, (2, 2, 2)), ((4, 4, 8192), 0.25, (2, 2, 2)), ((16, 16, 16), 8, (2, 2, 2))]
    for bs, rate, nb in others:
        for a, b in [('read_inline', 'read_inline'), ('read_crossline', 'read_crossline'), ('read_zslice', 'read_zslice'),
                     ('read_subvolume', 'read_subvolume'), ('read_inline', 'read_crossline'), ('read_subvolume', 'read_zslice'),
                     ('read_zslice', 'read_inline'), ('read_crossline', 'read_subvolume')]:
            items.append(mk_item([a, b], bs, rate, nb, tier))
        if bs[0] <= 8:
            for a, b in [('get_trace', 'get_trace'), ('read_subvolume', 'get_trace'), ('get_trace', 'read_inline')]:
                items.append(mk_item([a, b], bs, rate, nb, tier, dict(dimcap=1)))
    # configurations: second reader / closed reader / emulator / preload, on representative pairs
    rep_pairs = [('read_inline', 'read_inline'), ('read_subvolume', 'read_subvolume'), ('get_trace', 'get_trace'),
                 ('read_zslice', 'read_crossline'), ('gen_trace_header', 'get_trace'), ('get_trace', 'gen_trace_header'),
                 ('get_tracefield_values_1', 'gen_trace_header_all')]
    for config in ('two', 'two-close', 'emu', 'two-files'):
        for a, b in rep_pairs:
            items.append(mk_item([a, b], (4, 4, 256), 8, (2, 2, 2), tier, dict(dimcap=1, config=config)))
    for a, b in rep_pairs[:5]:
        items.append(mk_item([a, b], (4, 4, 256), 8, (2, 2, 2), tier, dict(dimcap=1, preload=True)))
    # triples: data read, something that moves the shared handle, data read again
    triples = [('get_trace', 'gen_trace_header', 'get_trace'), ('read_inline', 'gen_trace_header', 'read_inline'),
               ('read_subvolume', 'get_tracefield_values_1', 'read_subvolume'), ('get_trace', 'read_crossline', 'get_trace')]
    for t3 in triples:
        for config in ('same', 'emu'):
            items.append(mk_item(list(t3), (4, 4, 256), 8, (2, 2, 2), tier, dict(dimcap=1, config=config)))
    for ccs in (None, 1):
        items.append(mk_item(['get_trace', 'get_trace', 'get_trace'], (8, 8, 64), 8, (2, 2, 1), tier, dict(dimcap=1, chunk_cache_size=ccs)))
    items.append(mk_item(['get_trace', 'read_subvolume', 'get_trace'], (8, 8, 64), 8, (2, 2, 1), tier, dict(dimcap=1)))
    # irregular 3D files: trace / header ordinals go through the population mask, header arrays are cached masked or padded
    irr = ['gen_trace_header_irregular', 'get_tracefield_values_0', 'get_trace_irregular']
    for a in irr:
        for b in irr:
            for nh, dims in (((1, (3, 2, 5)),) if quick else ((1, (3, 2, 5)), (2, (3, 3, 5)), (1, (5, 3, 7)))):
                items.append(mk_item([a, b], (4, 4, 256), 8, (2, 1, 1) if dims[0] > 4 else (1, 1, 1), tier, dict(dims=dims, holes=nh)))
            # the emulator's seven readers share one handle AND (class-level caches) see each other's header-array state
            items.append(mk_item([a, b], (4, 4, 256), 8, (1, 1, 1), tier, dict(dims=(3, 2, 5), holes=1, config='emu')))
    for t3 in (['gen_trace_header_irregular', 'get_tracefield_values_0', 'gen_trace_header_irregular'],
               ['get_tracefield_values_0', 'gen_trace_header_irregular', 'get_tracefield_values_0'],
               ['get_trace_irregular', 'get_tracefield_values_0', 'get_trace_irregular']):
        items.append(mk_item(t3, (4, 4, 256), 8, (1, 1, 1), tier, dict(dims=(3, 2, 5), holes=1)))
    # 2D
    for a, b in [('read_subplane', 'read_subplane'), ('get_trace_2d', 'get_trace_2d'), ('read_subplane', 'get_trace_2d'),
                 ('gen_trace_header_2d', 'get_trace_2d'), ('get_trace_2d', 'gen_trace_header_2d')]:
        for bs in ((1, 16, 256), (1, 4, 1024)):
            for config in ('same', 'emu'):
                items.append(mk_item([a, b], bs, 8, (3, 2), tier, dict(config=config, stored=(1, 115, 189))))
    if not quick:
        for a in data:
            for b in data:
                items.append(mk_item([a, b], (4, 4, 256), 8, (2, 2, 2), tier, dict(dimcap=1, wild=True)))
        for a in data[:4]:
            for b in data[:4]:
                for c in ('read_subvolume', 'get_trace'):
                    items.append(mk_item([a, b, c], (4, 4, 256), 8, (2, 2, 2), tier, dict(dimcap=1)))
    return items


def replay_candidate(it, c):
    meta = it.meta
    fd = meta['opts'].get('fixdims')
    if meta['opts'].get('dims'):
        c['model'].update(zip(('n_il', 'n_xl', 'n_s'), meta['opts']['dims']))
    elif fd is not None:
        # concrete cube: the dimensions are not solver inputs
        bs_, nb_ = meta['bs'], meta['nb']
        if bs_[0] == 1:
            c['model'].update(n_tr=nb_[0] * bs_[1] - fd, n_s=nb_[1] * bs_[2] - fd)
        else:
            c['model'].update(n_il=nb_[0] * bs_[0] - fd, n_xl=nb_[1] * bs_[1] - fd, n_s=nb_[2] * bs_[2] - fd)
    req = dict(kind='history', hist=meta['hist'], bs=meta['bs'], rate=meta['rate'], model=c['model'],
               config=meta['opts'].get('config', 'same'), preload=bool(meta['opts'].get('preload')),
               chunk_cache_size=meta['opts'].get('chunk_cache_size'), stored=list(meta['opts'].get('stored', (73, 189, 193))),
               method=meta['hist'][-1], holes=meta['opts'].get('holes'), handlers=['replay.history'])
    return replay(req)


def main(prop, tier, only=None):
    t0 = time.time()
    items = items_for(tier)
    if only:
        items = [i for i in items if only in i.desc]
    results = run_items(items)
    bounds = dict(history_length='2 (all ordered pairs of 9 read methods on the default layout) + selected triples; thorough adds all data triples',
                  blocks_per_axis='2 (3 along one axis for the trace-cache items)', chunk_cache_size=[1, 2, 'default'],
                  configurations=['same reader', 'second reader', 'second reader after the first is closed', 'emulator (7 readers on one handle)', 'preload'],
                  arguments='unbounded integers')
    return finish(prop, tier, t0, results, items, ASSUMPTIONS, bounds, replay_fn=replay_candidate)


if __name__ == '__main__':
    sys.exit(main('C15', sys.argv[1] if len(sys.argv) > 1 else 'quick', sys.argv[2] if len(sys.argv) > 2 else None))
