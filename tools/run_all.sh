#!/bin/bash
# run_all.sh [quick|thorough] [ids...]: run every registered check, one after the other; log exit codes and wall time.
TIER="${1:-quick}"; shift
cd "$(dirname "$0")/.."
IDS="$@"; [ -z "$IDS" ] && IDS=$(python3 -c "import json;print(' '.join(c['property_id'] for c in json.load(open('MANIFEST.json'))['checks']))")
LOGS="${VERIF_LOGDIR:-/tmp/verif-logs}"; mkdir -p "$LOGS"
for p in $IDS; do
  t0=$(date +%s)
  ./bin/check $p --tier $TIER > $LOGS/$p.$TIER.log 2>&1; rc=$?
  t1=$(date +%s)
  echo "$p rc=$rc wall=$((t1-t0))s $(grep -E "^$p $TIER" $LOGS/$p.$TIER.log | cut -c1-220)"
done
