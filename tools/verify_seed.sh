#!/bin/bash
# verify_seed.sh <Cxx> <k>: confirm a sub-agent's seeded change in its scratch worktree and file it under /verif/seeded/<Cxx>/.
# Confirms: demo passes on the clean worktree, fails with the patch; the set of passing tests is unchanged by the patch.
set -u
P="$1"; K="$2"; PFX="${3:-wt}"; TAG="${4:-}"; WT=/tmp/$PFX-$P; S=$WT/_seed
cd "$WT" || exit 9
git checkout -q -- . ; git stash list | grep -q . && echo "note: shared stash not empty"
[ -f "$S/patch$K.diff" ] || { echo "no patch$K"; exit 9; }
run_tests() { PYTHONPATH=$WT /venv/bin/python -m pytest -q -p no:cacheprovider --timeout=900 --continue-on-collection-errors -rA 2>&1 | grep -E "^PASSED" | sort; }
if [ ! -f /tmp/seed_baseline_pass.txt ]; then run_tests > /tmp/seed_baseline_pass.txt; fi
PYTHONPATH=$WT timeout 900 /venv/bin/python _seed/demo$K.py >/tmp/seed_demo_clean.log 2>&1; rc_clean=$?
git apply "$S/patch$K.diff" || { echo "patch does not apply"; exit 8; }
PYTHONPATH=$WT timeout 900 /venv/bin/python _seed/demo$K.py >/tmp/seed_demo_mut.log 2>&1; rc_mut=$?
run_tests > /tmp/seed_mut_pass.txt
git checkout -q -- .
lost=$(comm -23 /tmp/seed_baseline_pass.txt /tmp/seed_mut_pass.txt | wc -l)
echo "$P/$K: demo clean rc=$rc_clean, mutant rc=$rc_mut; baseline pass=$(wc -l < /tmp/seed_baseline_pass.txt) mutant pass=$(wc -l < /tmp/seed_mut_pass.txt) lost=$lost"
if [ $rc_clean -eq 0 ] && [ $rc_mut -ne 0 ] && [ $lost -eq 0 ]; then
  D=/verif/seeded/$P; mkdir -p $D
  cp "$S/patch$K.diff" $D/${TAG}patch$K.diff; cp "$S/demo$K.py" $D/${TAG}demo$K.py
  /venv/bin/python - "$S/meta$K.json" "$D/${TAG}meta$K.json" "$P" "$K" "$(wc -l < /tmp/seed_baseline_pass.txt)" "$(tail -3 /tmp/seed_demo_mut.log | tr '\n' ' ' | cut -c1-300)" <<'PY'
import json,sys
src,dst,p,k,npass,tail=sys.argv[1:7]
try: m=json.load(open(src))
except Exception: m={}
m.update(property=p, breaks_property=p, confirmed=dict(by='main session in scratch worktree /tmp/wt-%s (base: /repo HEAD at the time of seeding)'%p,
  ran=['demo%s.py on clean tree -> exit 0'%k,'git apply patch%s.diff; demo%s.py -> non-zero exit'%(k,k),'pytest with the patch: all %s tests passing on the clean tree still pass'%npass],
  demo_failure_tail=tail))
json.dump(m,open(dst,'w'),indent=1)
PY
  echo "filed under $D"
else
  echo "NOT CONFIRMED"; tail -5 /tmp/seed_demo_clean.log; exit 1
fi
