#!/usr/bin/env python3
"""Regenerates MANIFEST.json from the table below (keeps it valid at all times)."""
import json
import os

ROOT = os.path.dirname(os.path.dirname(os.path.abspath(__file__)))
ALL = ['C%02d' % i for i in range(1, 21)]

TECH = "bounded symbolic execution of the real Python functions (symx: z3 decides every path and obligation; sat models replayed on the real code)"
NOTE_COMMON = ("Trusted base: z3 5.1; the stub contracts listed in evidence.assumptions (numpy basic indexing, bytes/bytearray, struct, "
               "zfpy fixed-rate cell independence, thread-pool executor, file objects), each validated against the real library; "
               "the reference model models/spec.py written from docs/file-specification.md. Bounds: dimensions symbolic within the "
               "stated number of blocks per axis, layouts enumerated, arguments unbounded integers; anything reported as unknown / "
               "not encoded / budget reached in the evidence is outside the claim.")

CHECKS = {
    'C02': dict(text="For every enumerated layout and every symbolic cube size within the block bound, z3 shows on every path of the real "
                     "SgzReader.__init__ + read method + loader that each returned element is the decode of exactly the spec's cell of "
                     "the voxel numpy slicing denotes (in-range arguments unbounded/symbolic). Bounded model checking, not a proof.",
                design='DESIGN.md 7/C02'),
    'C14': dict(text="Same harness with the complement precondition: for all out-of-range argument tuples (unbounded integers) every path "
                     "either raises IndexError / the dimensionality error or returns exactly the real item Python indexing denotes; "
                     "provenance of every returned element must be a real stored voxel.",
                design='DESIGN.md 7/C14'),
    'C07': dict(text="The real reader runs on a symbolic conforming file behind a logging file/blob stub; the (offset, length) of every range read "
                     "is a z3 term. For all in-range arguments and all dimensions within the block bound z3 shows: every fetched byte lies in a "
                     "data-section block whose voxel box intersects the request, logged ranges are pairwise disjoint, open touches only header blocks, "
                     "preload fetches the data section exactly once, gen_trace_header costs one 4-byte read per stored array at the spec offset "
                     "(cold, after a bulk tracefield read and after another header). Bounded model checking.",
                design='DESIGN.md 7/C07'),
    'C17': dict(text="Every read method (samples and headers, 3D and 2D, file and blob backends) of the real reader runs on a symbolic conforming "
                     "file whose k-th range read (k a solver variable) raises, returns a symbolic shorter prefix or returns nothing (thorough: two "
                     "faults); on every feasible path z3 shows the call raises or every returned element keeps the fault-free provenance. Pooled "
                     "reads also run in reverse submission order. Bounded model checking.",
                design='DESIGN.md 7/C17'),
    'C18': dict(text="Reader side: every read method on a conforming file cut at a symbolic byte length raises or returns the complete file's "
                     "provenance. Writer side: the write sequence is recorded from the real converters (SEG-Y heuristic / thorough, NumPy) including "
                     "the in-place patches through second handles; for a symbolic prefix of it and a symbolic cut inside the next write the real "
                     "reader's header / tracefield / voxel / hash / geometry results equal those on the complete file or the file is refused. "
                     "One known finding (hash zero until the last write). Bounded model checking.",
                design='DESIGN.md 7/C18'),
    'C15': dict(text="Histories of 2 (all ordered pairs of nine read methods) and selected 3 operations with symbolic arguments run on real reader "
                     "objects (one reader, a second reader, a closed first reader, the emulator's seven readers on one handle, preload, chunk cache 1/2/"
                     "default) over one symbolic conforming file; the lru_cache contract is modelled, all other cache state is the repo's own code. z3 "
                     "shows on every path that the last result meets the absolute spec oracle, i.e. equals a fresh reader's. Bounded model checking.",
                design='DESIGN.md 7/C15'),
    'C01': dict(text="The real converters (NumPy route; SEG-Y routes where listed in the evidence) run on a symbolic source cube under provenance "
                     "stubs, then the real reader reads the produced file; for a symbolic voxel and all 64 positions of its cell z3 shows that the "
                     "decoded voxel is the ZFP cell whose inputs are exactly the edge-clamped source samples, for every enumerated layout and all "
                     "dimensions within the block bound. With the zfpy fixed-rate contract this is bit equality with the ZFP image of the "
                     "edge-extended cube. Bounded model checking.",
                design='DESIGN.md 7/C01'),
    'C03': dict(text="(V) version codec, order, gates and setuptools_scm strings decided over all 8.4 million versions symbolically (Int / SymStr); "
                     "(W) the real writers' actual write sequence on a symbolic source: every header field, table row, section length, footer "
                     "offset/content/padding and the file length equal the spec model, and the recorded version selects the conventions used. "
                     "Bounded model checking.",
                design='DESIGN.md 7/C03'),
    'C20': dict(text="The arrays the real producers feed to the hash object are recorded; for a symbolic stream position z3 shows the k-th hashed "
                     "float is sample k of the source in trace order and the stream length is n_traces x n_samples, for every enumerated layout; the "
                     "digest lands in bytes 960-979. SHA-1 itself is uninterpreted. Bounded model checking.",
                design='DESIGN.md 7/C20'),
    'C04': dict(text="The real header classification (all four detection modes), per-trace header capture, footer writing, table patching and the "
                     "real reader's header regeneration run end to end on a symbolic SEG-Y source whose varying header fields are uninterpreted "
                     "functions of the trace (wrapped to the field width) and on NumPy header arrays of int16/32/64; z3 shows for a symbolic trace that "
                     "each of the 89 fields reads back as in the source (heuristic mode under the property's precondition, strip -> 0) and that bytes "
                     "4096-7695 are the SEG-Y file header. Bounded model checking.",
                design='DESIGN.md 7/C04'),
    'C05': dict(text="make_header / np_float_to_bytes_signed / _parse_coordinates / gen_coord_list run on symbolic axis origins (any int32), enumerated "
                     "non-zero steps incl. negative and unequal ones, symbolic whole-millisecond start time and interval: z3 (Int) shows count and k-th "
                     "value of each axis, trace count and structured flag equal the source's. Sample intervals of any whole number of microseconds go "
                     "through binary64: the same real functions run on z3 Float64 terms (RNE, fp.to_sbv, roundToIntegral, numpy's arange length rule) and "
                     "the obligations stored interval = source interval, stored start, axis length = sample count, k-th axis value within 1e-6 ms of "
                     "t0 + k*interval are decided as QF_BVFP queries by z3 and the cvc5 binary per (interval range x start range x trace length) box; "
                     "witnesses are replayed on the real converter and reader. Bounded model checking.",
                design='DESIGN.md 7/C05 and 18',
                note=NOTE_COMMON + " The binary64 obligations are claimed only inside the boxes listed in the evidence bounds (quick: all intervals 1..32767 us - what segyio can read from the 2-byte field - x start "
                     "-2..2 ms x 3 samples, plus boxes with 2/7/100 samples, 2 intervals x all 65536 start times, one 2D file; NumPy route three boxes up to 65535 us); other (interval, start, "
                     "length) triples, non-whole-millisecond start times and the ZGY route are outside."),
    'C09': dict(text="2D route end to end on a symbolic 2D SEG-Y source: producer with edge replication, per-group / per-block compression, 2D header, "
                     "then the real 2D loaders: the sample read back at a symbolic (trace, sample) is the 2D ZFP cell of the edge-clamped source "
                     "samples; trace count, header of a symbolic trace and file header equal the source; volume-style refusals are C14's items. "
                     "Bounded model checking.",
                design='DESIGN.md 7/C09'),
    'C11': dict(text="Windowed SEG-Y conversion with a symbolic (min_il, max_il, min_xl, max_xl) window (families: starting at 0 / interior, per "
                     "axis and both), either SEG-Y reader: shape, trace count, axes, header-array length, file length, every voxel (C01 oracle relative "
                     "to the window) and every header field of a symbolic trace equal those of converting the windowed cube alone. Bounded model checking.",
                design='DESIGN.md 7/C11'),
    'C08': dict(text="Irregular SEG-Y route end to end (detect/infer geometry, trace placement by lookup, header write, reader mask and ordinal map): "
                     "grids 3x4 and 6x3 with one or two holes at every admissible position (enumerated by the solver), independent unequal increments, "
                     "zero / negative line numbers: inferred axes with their own increments, trace count, structured=False, trace i / header i = i-th "
                     "source trace, tracefield grids with zeros at holes, and every volume voxel = ZFP cell of the zero-filled, zero-extended grid. "
                     "Bounded model checking.",
                design='DESIGN.md 7/C08'),
    'C10': dict(text="The real SgzCropper runs on a symbolic conforming source (abstract data / footer bytes) with symbolic, possibly absent, index "
                     "ranges; the real reader then reads the output. z3 shows: header fields, file length, footer convention, axes, trace count, "
                     "structured flag, every voxel and every header value equal the source's at the position shifted by the block-aligned box; invalid "
                     "requests raise IndexError and open no output; other layouts are refused or right. Bounded model checking.",
                design='DESIGN.md 7/C10'),
    'C12': dict(text="convert_to_adv_sgz on symbolic conforming 2-bit default-layout sources of enumerated shapes (below / at / above one and two "
                     "64-blocks, every residue class of n mod 4 at the block edge): every real voxel of the output decodes the very same source "
                     "cell bytes, header fields / hash / file header / footer arrays are carried and conform to the source's format version; "
                     "unsupported inputs are refused without output. Bounded model checking.",
                design='DESIGN.md 7/C12'),
    'C19': dict(text="define_blockshape_3d/_2d run with one blockshape entry a solver variable in {-1} u [1, 8192], the other two enumerated from "
                     "19 values and bits_per_voxel from the property's list (ints, floats, strings): whenever the real function returns, z3 shows the "
                     "resolved setting satisfies the specification's validity predicate and keeps the given entries; every valid request is accepted. "
                     "Faithfulness of each valid layout is the subject of C01-C03 (thorough tiers enumerate all 401 layouts). Bounded model checking.",
                design='DESIGN.md 7/C19'),
    'C13': dict(text="The real SegyioEmulator / accessor classes are evaluated on the documented expression grammar with symbolic subscripts "
                     "(line numbers unbounded; slice bounds over existing line numbers with every combination of start/stop/step present; ordinal "
                     "slices with bounds in [-n-2, n+2] and steps -3..3; iteration, len, coordinate sub-volumes with steps) on ascending / descending, "
                     "unit / non-unit axes; results (which lines or ordinals, order, count, acceptance) are compared with a model of segyio's own slice "
                     "semantics read from segyio/line.py and validated against real segyio in every replay. Bounded model checking.",
                design='DESIGN.md 7/C13'),
    'C16': dict(text="Thread programs (queue / thread / file operations of run_conversion_loop, the producers, compressor and writer, incl. the "
                     "give-up path of any get-with-timeout) are extracted from the real code on every run for each route and n; a z3 transition system "
                     "with one symbolic scheduler choice per step shows for n = 1..3 plane sets and capacities 1, 2, 16 that no schedule deadlocks "
                     "before the call returns, that at return the file log is header + blocks 1..n in order exactly once, and that no thread can "
                     "move afterwards. Counterexample schedules are forced on the real functions by a scripted scheduler. Bounded model checking.",
                design='DESIGN.md 7/C16',
                technique="bounded model checking with z3 of thread programs extracted from the real code (symbolic scheduler; sat schedules forced on the real functions)"),
}

NOT_YET = "check not built yet in this session (work in progress; see DESIGN.md section 11 build order)"


def main():
    checks = []
    for pid in ALL:
        if pid not in CHECKS:
            continue
        c = CHECKS[pid]
        checks.append(dict(
            property_id=pid,
            quick_cmd="./bin/check %s --tier quick" % pid,
            thorough_cmd="./bin/check %s --tier thorough" % pid,
            evidence_file="/verif/evidence/%s.json" % pid,
            replay_cmd_template="./bin/check %s --replay {path}" % pid,
            engine="symx",
            level_claimed=dict(category=c.get('category', 'model_checking'), text=c['text'], design_ref=c['design']),
            level_note=c.get('note', NOTE_COMMON),
            technique=c.get('technique', TECH),
        ))
    na = [dict(property_id=p, reason=NA.get(p, NOT_YET)) for p in ALL if p not in CHECKS]
    m = dict(
        version=1,
        setup_cmd="./bootstrap.sh",
        hooks=dict(guard="SEISMIC_ZFP_VERIF", enable="no source hooks are needed: checks shadow module-global names of the repo's modules at run time",
                   baseline_off_cmd="cd /repo && /venv/bin/python -m pytest -ra -q -p no:cacheprovider --timeout=900 --continue-on-collection-errors",
                   source_commits=[], add_only=True),
        engines=[dict(name="symx", path="/verif/symx", serves_properties=sorted(CHECKS),
                      kind_free_text="operator-overloading symbolic executor for Python running the repo's real functions on z3 Int terms; "
                                     "DFS over decision vectors; provenance-carrying stubs for numpy/zfpy/files")],
        checks=checks,
        notes="All checks regenerate their encoding from /repo's working tree on every run (the repo's functions themselves are executed). "
              "Exit 3 = harness/encoding error (nothing claimed). known_findings.json lists recorded and fixed defects.",
        not_applicable=na,
    )
    with open(os.path.join(ROOT, 'MANIFEST.json'), 'w') as f:
        json.dump(m, f, indent=1)
    print("MANIFEST.json: %d checks, %d not_applicable" % (len(checks), len(na)))


NA = {
    'C06': "the property's subject is what segyio's C library writes and re-reads (re-opening the exported file, IBM rounding, effect of binary-header "
           "fields): outside symbolic execution of the Python code; the repo-side plumbing (trace/header lists handed to segyio.create) is not claimed separately",
}

if __name__ == '__main__':
    main()
