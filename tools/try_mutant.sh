#!/bin/bash
# try_mutant.sh <patch.diff> <Cxx> [check args...]: apply a seeded change to /repo, run the check, undo the change.
set -u
PATCH="$(readlink -f "$1")"; PROP="$2"; shift 2
cd /repo || exit 9
if [ -n "$(git status --porcelain -- seismic_zfp)" ]; then echo "repo not clean"; exit 9; fi
git apply "$PATCH" 2>/dev/null || git apply --3way "$PATCH" || { echo "PATCH DOES NOT APPLY"; git checkout -- . ; exit 8; }
git reset -q 2>/dev/null
cd /verif
./bin/check "$PROP" "$@"; rc=$?
git -C /repo checkout -- .
echo "try_mutant: exit=$rc"
exit $rc
