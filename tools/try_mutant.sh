#!/bin/bash
# try_mutant.sh <patch.diff> <Cxx> [check args...]: apply a seeded change to /repo, run the check, undo the change.
# If <patch>.diff no longer applies to /repo's HEAD (later fix: commits), <patch>.rebased.diff next to it is used.
set -u
PATCH="$(readlink -f "$1")"; PROP="$2"; shift 2
cd /repo || exit 9
if [ -n "$(git status --porcelain)" ]; then echo "repo not clean"; exit 9; fi
if ! git apply --check "$PATCH" 2>/dev/null; then
  R="${PATCH%.diff}.rebased.diff"
  if [ -f "$R" ] && git apply --check "$R" 2>/dev/null; then PATCH="$R"; else echo "PATCH DOES NOT APPLY"; exit 8; fi
fi
git apply "$PATCH" || { git reset -q --hard HEAD; exit 8; }
cd /verif
./bin/check "$PROP" "$@"; rc=$?
git -C /repo reset -q --hard HEAD
echo "try_mutant: exit=$rc ($(basename $PATCH))"
exit $rc
