#!/bin/bash
# Installs the solver wheels (offline) into /verif/.deps for /venv's python 3.12. Idempotent, lock-protected.
set -e
HERE="$(cd "$(dirname "$0")" && pwd)"
DEPS="$HERE/.deps"
STAMP="$DEPS/.ok-v1"
[ -f "$STAMP" ] && exit 0
mkdir -p "$DEPS"
(
  flock 9
  [ -f "$STAMP" ] && exit 0
  PIP_NO_INDEX=1 /venv/bin/python -m pip install --quiet --no-index --find-links /opt/veriftools/wheels \
      --target "$DEPS" --upgrade z3-solver jsonschema >/dev/null 2>"$DEPS/pip.err" || { cat "$DEPS/pip.err" >&2; exit 2; }
  touch "$STAMP"
) 9>"$DEPS/.lock"
